#!/venv/bin/python
"""Regenerate /verif/MANIFEST.json from the table below (single source of truth)."""

from __future__ import annotations

import json
import subprocess
from pathlib import Path

ROOT = Path(__file__).resolve().parent.parent

# id -> (claimed, category, technique, level text, level note)
T = {
    "C01": (True, "exploration", "icontract postconditions on every Model entry point vs independent reference evaluator",
            "Every number returned by __call__/get_right_hand_side/get_fluxes/get_args/time-course forms/get_stoichiometries on generated models (incl. the states an integrator visits) is compared with an independent evaluator; held on the models and states observed, not a proof.",
            "Trusted: mon/refmodel.py evaluator, mon/fnlib functions, icontract wrapping of class attributes."),
    "C02": (True, "exploration", "graph-classification oracle + reference values over exhaustive small graphs x all declaration orders and sampled mixed graphs; sys.monitoring loop-iteration counter as termination monitor",
            "All dependency graphs on <=2 (quick) / <=3 (thorough) derived nodes are enumerated with every declaration order; larger mixed-kind graphs with injected self-loops, cycles and missing names are sampled. Exception type, the names reported, values and the retry loop's iteration count are observed on every build.",
            "Trusted: own DFS classification (mon/refmodel.classify_graph), reference evaluator; message parsing accepts any format that quotes exactly the missing names and mentions the offending components."),
    "C03": (True, "exploration", "history checker: sequential specification (mirror) + freshly built model + reference evaluator compared on the full observable set after every edit",
            "Random and enumerated (query, mutator, query) histories over every public mutator with hostile arguments; after each step the edited model must answer every query like a model freshly built from the mirror content, and a rejected edit must change nothing.",
            "Trusted: the mirror's edit semantics (duplicates/time/unknown rejected, otherwise accepted, new components appended), mon/refmodel. Plural edits only with all-valid or first-invalid items."),
    "C13": (True, "exploration", "two-phase reference semantics vs get_initial_conditions / Simulator.y0 / argument table / classification, with icontract postconditions on Model entry points",
            "IA-heavy generated models: initial conditions, assignment-defined parameters, derived-parameter classification, frozen-vs-recomputed values at random (state,time) and the first row of a simulation are compared with the reference; sensitivity guard counts only cases where a wrong phase would change a number.",
            "Trusted: mon/refmodel two-phase evaluator; functions non-constant in each argument."),
    "C04": (True, "exploration", "history checker: sequential specification of the simulator's bookkeeping + closed-form (expm) piecewise solution, checked after every operation",
            "Random histories of Simulator operations (legal and illegal continuations, overlapping time-point arrays, overrides, parameter changes, steady-state runs, protocols, clearing) on linear networks; index monotonicity, containment of requested points, per-row states vs the exact solution from the previous segment's final state, raw_parameters per segment and refusal exactly when the end is not later than the time reached.",
            "Trusted: scipy.linalg.expm closed form, mon/simhist.py specification; sensitivity guard counts only segments where restart/stale-parameter/offset mistakes would move the state by >100x tolerance."),
    "C10": (True, "exploration", "reference evaluator applied to every reported row under the segment's parameters; each Simulation view read twice in random order with all flag / normalise shapes",
            "Multi-segment results with parameters changed between segments and again afterwards; every view method x flags x concatenated x normalise shape compared with the reference, N*v = dx/dt on reported frames, producers/consumers by coefficient sign, repeated reads identical.",
            "Trusted: mon/refmodel.py; computed coefficients depend on parameters only and keep their sign."),
    "C14": (True, "exploration", "C04's sequential specification + closed form, manual update+simulate twin, exact index arithmetic on dyadic times, fluxes with the step's values",
            "Protocols of 1..6 steps on fresh and continued simulators; plain and time-course forms with grids on/between/beyond boundaries, relative and absolute; each step's interval is compared with the closed-form solution under that step's values and with a second simulator driven manually.",
            "Trusted: expm closed form; protocols name the same parameters in every step."),
    "C15": (True, "exploration", "analytic steady state (numpy.linalg.solve) vs reported state and flux balance; unambiguous no-steady-state networks must yield a failure value",
            "Stable linear networks x initial values x tolerances x norm modes through Simulator and scan.steady_state; linear growth, accumulation, exponential growth and undamped oscillators must be reported as failure.",
            "Trusted: analytic solution; bound 10*tol+1e-4*scale on success; failure is accepted for networks that have a steady state."),
    "C05": (True, "exploration", "independent reference expansion (from the statement) vs LabelMapper.build_model structure, initial totals/placement, and the summed-derivative identity at random isotopomer states",
            "Generated base networks x label counts x maps x initial_labels; reaction count per mapped reaction, every isotopomer stoichiometry, initial totals and label placement, sum of isotopomer derivatives = base derivative at totals, short maps rejected.",
            "Trusted: 40-line reference expansion in checks/c05_labels.py; mapped reactions irreversible mass action."),
    "C16": (True, "exploration", "differential monitor: LinearLabelMapper derivative vs positional-enrichment derivative of the LabelMapper isotopomer model at a constructed metabolic steady state; inverse-map ablation twin for attribution",
            "Networks steady by construction x bijective maps x random isotopomer distributions; stationarity of uniform enrichment = EXT and absence of label without a source. One open known finding (map direction) attributed by the inverse-map twin.",
            "Trusted: LabelMapper (C05), documented reading of maps. Maps restricted to bijections on positions."),
    "C09": (True, "exploration", "differential monitor: every scan row vs an independent simulation of a fresh copy; schedule perturbation through the public worker= parameter (delays, pid/timing log), emulated core counts, injected failing rows through the public integrator= parameter",
            "All nine scan / Monte-Carlo entry points, tables mixing parameters and initial values with non-default labels, rows that fail, sequential and parallel execution on 1/2/3/5/16 emulated cores with per-row delays; views are read only after the scan and again after mutating the caller's model. Evidence lists worker pids, completion orders and calls logged.",
            "Trusted: the independent per-row Simulator run; failures are injected by an integrator wrapper that fails when the row sets kz=0."),
    "C18": (True, "exploration", "analytic oracle on power-law networks (kinetic orders, closed-form steady-state sensitivities) + exact before/after snapshot of the caller's model + sequential vs parallel comparison",
            "Variable/parameter elasticities (normalized or not, subsets, given/default state), response coefficients sequentially and with 1/2/16 workers, and the mc.* wrappers on parameter draws; the caller's raw parameters, raw variables, parameter values and initial conditions are compared exactly before and after every routine.",
            "Trusted: closed forms in checks/c18_mca.py; tolerance 1e-6 (elasticities), 2e-2 (response coefficients, steady-state solver error amplified by 1/2e-4)."),
    "C19": (True, "fault_enumeration", "fault injection: sys.monitoring LINE failpoints (os._exit at the j-th execution of every line of _load_or_run / save function) and RLIMIT_FSIZE+SIGXFSZ byte kills at every file size, in forked children; rerun and third run compared with the cache-free oracle and a call log",
            "Every executable line x key index and (thorough) every byte size of the small payload are enumerated, sequential and inside pebble workers, for tuple, dict and real Simulation payloads; after each crash the directory is listed, a rerun must complete with correct results and a third run must not recompute.",
            "Crash instants are Python line boundaries and file byte sizes; page-cache loss not modelled. Oracle = cache-free run."),
    "C06": (True, "exploration", "differential execution: generated Python functions (real module files) translated by fn_to_sympy, evaluated by exact simultaneous substitution at lattice + random points against the executed function; instrumented twin (AST transform) filters points where rounding decides a comparison",
            "Thousands of generated function bodies in and just outside the supported subset x argument renamings (fresh, permuted, shifted) x branch-boundary lattices; None / an exception is accepted as refusal, any returned expression must equal the function wherever it is defined.",
            "Trusted: CPython executing the function; sympy xreplace/evalf for evaluation. Points where two compared operands are within 1e-9 and not small dyadic rationals are skipped (floating-point artefact, not a defined branch)."),
    "C07": (True, "exploration", "differential execution of the emitted text with the target's real toolchain (CPython exec, node 20 after type stripping, rustc) and a Julia-subset evaluator, against model(t, x); repair-twin attribution for the open Julia finding",
            "The four generators run on the same model instance in random order (side effects between generators observed), with and without free parameters; every emission is executed at 4 states; untranslatable functions must make generation raise.",
            "TypeScript types are not checked (no tsc); Julia acceptance by a real Julia cannot be decided here (subset evaluator). Parameters feeding an initial assignment are not made free."),
    "C11": (True, "exploration", "differential execution: exec(generate_mxlpy_code(M))['create_model']() compared with M and the reference evaluator at random states",
            "C07-style models plus hostile function assignments (shared / permuted / repeated arguments, same-named functions from two modules, prefix collisions, math.* bodies, initial assignments, computed coefficients); names and kinds, initial values, parameter values, derived values, fluxes and derivatives compared.",
            "Trusted: the original model (C01) and mon/refmodel; 15-significant-digit printing -> tolerance 1e-9."),
    "C12": (True, "exploration", "differential monitor: symbolic equations / Jacobian evaluated by exact substitution vs numeric model and central differences at random states and parameter settings; use_jacobian on/off trajectories for Radau/BDF/LSODA with a counter on the Jacobian callable",
            "Translatable and shipped-library models in random declaration order, two parameter settings each; simulations (one and two segments with a parameter change) compared with and without Jacobian and with the closed form; unconvertible functions must raise.",
            "Trusted: numeric model (C01), expm closed form; points next to a conditional's kink are skipped for the finite-difference comparison."),
    "C08": (True, "exploration", "round-trip monitor: sbml.write then sbml.read on generated models (expression grammar in real module files, private HOME per worker), re-read model compared with the original at random states; plain-name ablation twin for the open finding",
            "Outcomes tallied per feature: export raised (NotImplementedError/ValueError = controlled refusal, accepted), export crashed (violation), read failed (violation), equal, different (violation). Every original name must exist with the same initial value, parameter value, derived value, flux and derivative.",
            "Trusted: the original model evaluated directly. Extra components in the re-read model are allowed. pysbml is a third-party dependency of the import path."),
    "C20": (True, "exploration", "law monitor over generated (data, prediction) pairs per shipped loss; residual log through the public residual_fn= wrapper, recomputed from independent simulations; before/after snapshot of the caller's model",
            "Every shipped loss: smallest at equality and not rewarding magnitude; every logged residual of real fits (steady state / time course / protocol, L-BFGS-B / Nelder-Mead, scaled or not) equals the loss of an independent prediction; reported loss = recomputed loss <= start loss; caller's model untouched with as_deepcopy=True. One open finding (losses.mean).",
            "Trusted: independent Simulator run on a fresh deep copy; the shipped loss function applied to it is the oracle for residual equality."),
    "C17": (True, "exploration", "independent SBML interpreter on libsbml ASTNodes (mon/sbml_interp.py) vs the imported model at random states; ablation-chain attribution (plain identifiers -> no species initial assignments -> uniform declarations) for the open pysbml findings; pair sessions in forked children with per-document control sessions",
            "Generated L3V2 documents (compartments != 1, amount / concentration / assignment-defined species, function definitions, chained rules, piecewise / power / transcendental laws, local parameters, time, fractional and rule-defined stoichiometries, hostile identifiers); initial values, parameter values, rule values and species derivatives compared; two documents per process (same stem, colliding stems, one-digit difference, re-read) must not interfere.",
            "Trusted: libsbml's parser and the ~250-line interpreter. The imported variable of a species may be its amount or its concentration (inferred from the initial value). Three open findings located in the third-party pysbml package."),
}
PENDING_REASON = "check not built yet in this session (work in progress; design in DESIGN.md section 4)"


def main() -> None:
    props = [json.loads(l) for l in (ROOT / "properties.jsonl").read_text().splitlines() if l.strip()]
    checks = []
    na = []
    for p in props:
        pid = p["id"]
        row = T.get(pid)
        if row is None or not row[0]:
            na.append({"property_id": pid, "reason": (row[4] if row else PENDING_REASON)})
            continue
        _, cat, tech, text, note = row
        checks.append(
            {
                "property_id": pid,
                "quick_cmd": f"./check {pid} --tier quick",
                "thorough_cmd": f"./check {pid} --tier thorough",
                "evidence_file": f"/verif/evidence/{pid}.json",
                "replay_cmd_template": f"./check {pid} --replay {{path}}",
                "engine": "runtime-monitor",
                "level_claimed": {"category": cat, "text": text + " The workload was widened after each of thirteen rounds of independently seeded property-breaking changes (240 archived under seeded/, each caught by the quick tier; per check seed for the first eleven rounds in seeded/RESULTS_by_seed.md; DESIGN 9.4-9.15); the evidence counters name the input classes actually exercised in a run.",
                                  "design_ref": f"DESIGN.md sections 4 and 9, {pid}"},
                "level_note": note,
                "technique": tech,
            }
        )
    try:
        commits = subprocess.run(  # noqa: S603,S607
            ["git", "-C", "/repo", "log", "--format=%H %s", "--grep=^hook:"], capture_output=True, text=True, check=False
        ).stdout.split("\n")
        hook_commits = [c.split()[0] for c in commits if c.strip()]
    except Exception:  # noqa: BLE001
        hook_commits = []
    manifest = {
        "version": 1,
        "setup_cmd": "./tools/setup.sh",
        "hooks": {
            "guard": "MXLPY_VERIF",
            "enable": "no source hooks: monitors attach from the harness (icontract on class attributes, sys.monitoring, public worker= parameters); ./check exports MXLPY_VERIF=1 for symmetry only",
            "baseline_off_cmd": "cd /repo && env -u MXLPY_VERIF /venv/bin/python -m pytest -ra -q -p no:cacheprovider --timeout=900 --continue-on-collection-errors",
            "source_commits": hook_commits,
            "add_only": True,
        },
        "engines": [
            {
                "name": "runtime-monitor",
                "path": "/verif/check",
                "serves_properties": [c["property_id"] for c in checks],
                "kind_free_text": "runtime monitoring: generated/hostile workloads on the real code under /venv/bin/python with icontract postconditions, reference-model oracles, history checkers, differential execution and fault injection; sharded over worker subprocesses",
            }
        ],
        "checks": checks,
        "not_applicable": na,
        "notes": "Exit codes of ./check: 0 held (KNOWN-FINDING lines for listed open findings), 1 violation (VIOLATION line + replay file), 2 inconclusive. Known findings: /verif/known_findings.json (never written at run time).",
    }
    (ROOT / "MANIFEST.json").write_text(json.dumps(manifest, indent=1) + "\n")
    print(f"claimed={len(checks)} not_applicable={len(na)}")


if __name__ == "__main__":
    main()
