#!/bin/bash
# tools/eval_seed.sh <seed dir with patch.diff, demo.py> <property>
# demo must exit 0 on a clean scratch worktree and 1 with the patch; then the quick check runs against the patched worktree.
# Prints one line. /repo is not touched.
d=$(readlink -f "$1"); prop=$2
here=$(cd "$(dirname "$0")/.." && pwd)
wt=$(mktemp -d -u /tmp/evalwt-XXXXXX); out=$(mktemp -d /tmp/evalout-XXXXXX); home=$(mktemp -d /tmp/evalhome-XXXXXX)
git -C /repo worktree add -q "$wt" HEAD || exit 2
( cd "$home" && HOME="$home" PYTHONPATH="$wt/src" timeout 1200 /venv/bin/python "$d/demo.py" >/dev/null 2>&1 ); a=$?
git -C "$wt" apply "$d/patch.diff" || { echo "$(basename $d) patch does not apply"; git -C /repo worktree remove --force "$wt"; exit 2; }
( cd "$home" && HOME="$home" PYTHONPATH="$wt/src" timeout 1200 /venv/bin/python "$d/demo.py" >/dev/null 2>&1 ); b=$?
r=$(PYTHONPATH="$wt/src" VERIF_OUT="$out" "$here/check" "$prop" 2>&1 | grep -v "WARNING conda" | grep -E "^(VIOLATION|HELD|INCONCLUSIVE|  violation)" | head -1 | cut -c1-220)
git -C /repo worktree remove --force "$wt"; rm -rf "$out" "$wt" "$home"
echo "$(basename $d) demo_clean=$a demo_patched=$b | $r"
