#!/bin/bash
# Offline setup: runtime-contract libraries beside the repository's interpreter.
set -e
HERE="$(cd "$(dirname "${BASH_SOURCE[0]}")/.." && pwd)"
if [ ! -d "$HERE/.deps/icontract" ]; then
  PIP_NO_INDEX=1 /venv/bin/pip install --quiet --no-index --find-links /opt/veriftools/wheels \
      --no-deps --target "$HERE/.deps" icontract deal 2>&1 | grep -v "WARNING conda" || true
fi
test -d "$HERE/.deps/icontract"
mkdir -p "$HERE/evidence" "$HERE/replays"
echo "setup ok"
