#!/venv/bin/python
"""Evaluate a seeded change:  tools/try_seed.py <dir with patch.diff, demo.py, meta.json> <property> [--tier quick|thorough] [--no-tests]

1. demo.py must exit 0 on the unchanged /repo and 1 on a scratch worktree with the patch applied;
2. the pinned test suite must still pass on the patched worktree (tools/baseline.py);
3. the patch is applied to /repo (git apply), ./check <property> runs, and /repo is restored (git checkout -- .).
Prints a one-line JSON verdict.
"""

from __future__ import annotations

import json
import os
import subprocess
import sys
import tempfile
from pathlib import Path

ROOT = Path(__file__).resolve().parent.parent


def sh(cmd: list[str], **kw) -> subprocess.CompletedProcess:  # noqa: ANN003
    return subprocess.run(cmd, capture_output=True, text=True, **kw)  # noqa: S603


def main() -> int:
    d = Path(sys.argv[1]).resolve()
    prop = sys.argv[2]
    tier = "quick"
    if "--tier" in sys.argv:
        tier = sys.argv[sys.argv.index("--tier") + 1]
    run_tests = "--no-tests" not in sys.argv
    patch = d / "patch.diff"
    out: dict = {"seed": d.name, "property": prop}
    assert sh(["git", "-C", "/repo", "status", "--porcelain"]).stdout.strip() == "", "/repo not clean"
    wt = tempfile.mkdtemp(prefix="seedwt-")
    os.rmdir(wt)
    try:
        assert sh(["git", "-C", "/repo", "worktree", "add", "-q", wt, "HEAD"]).returncode == 0
        ap = sh(["git", "-C", wt, "apply", str(patch)])
        out["patch_applies"] = ap.returncode == 0
        if ap.returncode != 0:
            out["error"] = ap.stderr[-300:]
            print(json.dumps(out))
            return 2
        home = tempfile.mkdtemp(prefix="seedhome-")
        env = {k: v for k, v in os.environ.items() if k not in ("MXLPY_VERIF",)}
        env["HOME"] = home
        a = sh(["/venv/bin/python", str(d / "demo.py")], env=env | {"PYTHONPATH": "/repo/src"}, cwd=home, timeout=1200)
        b = sh(["/venv/bin/python", str(d / "demo.py")], env=env | {"PYTHONPATH": f"{wt}/src"}, cwd=home, timeout=1200)
        out["demo_unchanged_exit"] = a.returncode
        out["demo_patched_exit"] = b.returncode
        out["demo_ok"] = a.returncode == 0 and b.returncode == 1
        if run_tests:
            t = sh([str(ROOT / "tools" / "baseline.py"), wt], timeout=3600)
            out["tests_still_pass"] = t.returncode == 0
            out["tests_summary"] = t.stdout.strip().splitlines()[-1][:200] if t.stdout.strip() else t.stderr[-200:]
        subprocess.run(["rm", "-rf", home], check=False)  # noqa: S603, S607
    finally:
        sh(["git", "-C", "/repo", "worktree", "remove", "--force", wt])
    # ---- run the check against the patched /repo -----------------------------
    outdir = ""
    try:
        assert sh(["git", "-C", "/repo", "apply", str(patch)]).returncode == 0
        outdir = tempfile.mkdtemp(prefix="seedout-")
        c = sh([str(ROOT / "check"), prop, "--tier", tier], cwd=str(ROOT), timeout=7200, env=dict(os.environ, VERIF_OUT=outdir))
        out["check_exit"] = c.returncode
        out["check_lines"] = [ln[:300] for ln in c.stdout.splitlines() if ln.startswith(("VIOLATION", "INCONCLUSIVE", "HELD", "  violation:"))][:6]
        out["caught"] = c.returncode == 1 and any(ln.startswith("VIOLATION") for ln in c.stdout.splitlines())
    finally:
        sh(["git", "-C", "/repo", "checkout", "--", "."])
        subprocess.run(["rm", "-rf", outdir], check=False)  # noqa: S603, S607
    print(json.dumps(out, indent=1))
    return 0


if __name__ == "__main__":
    sys.exit(main())
