#!/venv/bin/python
"""Archive a confirmed seeded change: tools/archive_seed.py <src dir> <name> <property> <caught_by json>"""
import json, shutil, sys
from pathlib import Path
src, name, prop = Path(sys.argv[1]), sys.argv[2], sys.argv[3]
extra = json.loads(sys.argv[4])
dst = Path("/verif/seeded") / name
dst.mkdir(parents=True, exist_ok=True)
shutil.copy(src / "patch.diff", dst / "patch.diff")
shutil.copy(src / "demo.py", dst / "demo.py")
meta = {}
try:
    meta = json.loads((src / "meta.json").read_text())
except Exception:
    pass
out = {
    "property": prop,
    "origin": "independent sub-agent (given only the property text and a scratch worktree)",
    "summary": meta.get("summary"),
    "needs": meta.get("needs"),
    "files": meta.get("files"),
    "confirmed_by_me": {
        "demo": "demo.py exits 0 on unchanged /repo/src and 1 on a scratch worktree with patch.diff applied (tools/try_seed.py)",
        "tests": "pinned suite on the patched worktree: all 1378 stable_pass tests still pass (tools/baseline.py / tools/confirm_seed_tests.sh)",
        "how_to_run": f"git -C /repo apply /verif/seeded/{name}/patch.diff && ./check {prop} --tier quick ; git -C /repo checkout -- .",
    },
}
out.update(extra)
(dst / "meta.json").write_text(json.dumps(out, indent=1) + "\n")
print("archived", dst)
