#!/venv/bin/python
import json,sys,glob
for f in sorted(glob.glob(f'/verif/replays/{sys.argv[1]}/*.json')):
    d=json.load(open(f)); v=d['violation']; det=dict(v['detail'])
    for k in ('net','spec'): det.pop(k,None)
    print('==',f.split('/')[-1]); print('  WHAT:',v['what'],'| mech:',v['mechanism'])
    s=json.dumps(det,default=str)
    print('  ',s[:int(sys.argv[2]) if len(sys.argv)>2 else 1500])
