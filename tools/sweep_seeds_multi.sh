#!/bin/bash
# tools/sweep_seeds_multi.sh <check seeds...>  -> seeded/RESULTS_by_seed.md
# Every archived seeded change against the quick tier of its property, once per VERIF_SEED given (4 runs at a time;
# scratch worktree + PYTHONPATH via tools/try_patch.sh; /repo and evidence/ are not touched). A change that is caught for
# one seed and missed for another is caught by luck: widen the workload until the row is all 1.
cd "$(dirname "$0")/.."
seeds=("$@"); [ ${#seeds[@]} -eq 0 ] && seeds=(1 2 3)
tmp=$(mktemp -d /tmp/sweepm-XXXXXX)
for d in seeded/C*/; do
  n=$(basename "$d"); p=${n:0:3}
  for s in "${seeds[@]}"; do
    ( VERIF_SEED=$s CUT=120 LINES_MAX=2 tools/try_patch.sh "$d/patch.diff" "$p" >/dev/null 2>&1; echo $? > "$tmp/$n.$s" ) &
    while [ $(jobs -r | wc -l) -ge ${JOBS:-4} ]; do sleep 1; done
  done
done
wait
{
echo "# Seeded changes against the quick tier, per check seed (regenerate with tools/sweep_seeds_multi.sh ${seeds[*]})"
echo
echo "| seeded change | property | exit per VERIF_SEED (${seeds[*]}) |"
echo "|---|---|---|"
for d in seeded/C*/; do
  n=$(basename "$d"); p=${n:0:3}; row=""
  for s in "${seeds[@]}"; do row="$row $(cat "$tmp/$n.$s" 2>/dev/null)"; done
  echo "| $n | $p |$row |"
done
} > seeded/RESULTS_by_seed.md
rm -rf "$tmp"
