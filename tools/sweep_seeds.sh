#!/bin/bash
# tools/sweep_seeds.sh [name-prefix]  -> seeded/RESULTS.md : every archived seeded change against the quick tier of its property
# (scratch worktree + PYTHONPATH via tools/try_patch.sh; /repo and evidence/ are not touched)
cd "$(dirname "$0")/.."
out=seeded/RESULTS.md
{
echo "# Seeded changes against the quick tier (regenerate with tools/sweep_seeds.sh)"
echo
echo "| seeded change | property | exit | first line of the report |"
echo "|---|---|---|---|"
for d in seeded/${1:-}*/; do
  n=$(basename "$d"); p=${n:0:3}
  r=$(CUT=150 LINES_MAX=3 tools/try_patch.sh "$d/patch.diff" "$p"); rc=$?
  line=$(echo "$r" | grep -E "violation|HELD|INCONCLUSIVE" | head -1 | sed 's/|/\//g')
  echo "| $n | $p | $rc | ${line} |"
done
} > "$out.tmp"
mv "$out.tmp" "$out"
