#!/bin/bash
# tools/try_patch.sh <patch.diff> <property> [check args...]
# Run one check against a scratch worktree of /repo with the patch applied (selected through PYTHONPATH);
# /repo itself is not touched and evidence/replays go to a scratch VERIF_OUT.
set -u
patch=$(readlink -f "$1"); prop=$2; shift 2
here=$(cd "$(dirname "$0")/.." && pwd)
wt=$(mktemp -d -u /tmp/patchwt-XXXXXX); out=$(mktemp -d /tmp/patchout-XXXXXX)
git -C /repo worktree add -q "$wt" HEAD || exit 2
git -C "$wt" apply "$patch" || { git -C /repo worktree remove --force "$wt"; exit 2; }
PYTHONPATH="$wt/src" VERIF_OUT="$out" "$here/check" "$prop" "$@" 2>&1 | grep -v "WARNING conda" | grep -E "^(VIOLATION|HELD|INCONCLUSIVE|  violation|C[0-9]+ tier)" | cut -c1-${CUT:-400} | head -${LINES_MAX:-6}
rc=${PIPESTATUS[0]}
git -C /repo worktree remove --force "$wt"; rm -rf "$out" "$wt"
exit $rc
