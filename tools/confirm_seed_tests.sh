#!/bin/bash
# usage: tools/confirm_seed_tests.sh <seed_dir> ...   -> prints one line per seed: does the pinned suite still pass with the patch?
for d in "$@"; do
  (
    wt=$(mktemp -d -u /tmp/seedtest-XXXXXX)
    git -C /repo worktree add -q "$wt" HEAD && git -C "$wt" apply "$d/patch.diff" && \
      res=$(/verif/tools/baseline.py "$wt" 2>&1 | tail -1)
    echo "$(basename $d): $res"
    git -C /repo worktree remove --force "$wt"
  ) &
  while [ $(jobs -r | wc -l) -ge 4 ]; do sleep 2; done
done
wait
