#!/venv/bin/python
"""Run the repository's pinned test command (guard OFF) and compare the set of
passing tests with /root/.vp/BASELINE.json `stable_pass`.

usage: tools/baseline.py [repo_dir]      exit 0 iff every stable_pass test passed
"""

from __future__ import annotations

import json
import os
import subprocess
import sys
import tempfile
import xml.etree.ElementTree as ET
from pathlib import Path


def main() -> int:
    repo = sys.argv[1] if len(sys.argv) > 1 else "/repo"
    base = json.loads(Path("/root/.vp/BASELINE.json").read_text())
    want = set(base["stable_pass"])
    env = {k: v for k, v in os.environ.items() if k != "MXLPY_VERIF"}
    home = tempfile.mkdtemp(prefix="baseline-home-")
    env["HOME"] = home
    if repo != "/repo":
        env["PYTHONPATH"] = f"{repo}/src"
    with tempfile.NamedTemporaryFile(suffix=".xml", delete=False) as fh:
        xml = fh.name
    cmd = [
        "/venv/bin/python", "-m", "pytest", "-ra", "-q", "-p", "no:cacheprovider", "--timeout=900",
        "--continue-on-collection-errors", f"--junitxml={xml}",
    ]
    p = subprocess.run(cmd, cwd=repo, env=env, capture_output=True, text=True)  # noqa: S603
    print(p.stdout.strip().splitlines()[-1] if p.stdout.strip() else p.stderr[-500:])
    passed = set()
    for tc in ET.parse(xml).getroot().iter("testcase"):
        if not any(ch.tag in ("failure", "error", "skipped") for ch in tc):
            passed.add(f"{tc.get('classname')}::{tc.get('name')}")
    os.unlink(xml)
    subprocess.run(["rm", "-rf", home], check=False)  # noqa: S603,S607
    missing = sorted(want - passed)
    print(f"stable_pass={len(want)} passed_now={len(passed)} missing={len(missing)} newly_passing={len(passed - want)}")
    for m in missing[:40]:
        print("  NOT PASSING:", m)
    return 1 if missing else 0


if __name__ == "__main__":
    sys.exit(main())
