#!/venv/bin/python
"""Own mutation sweep:  tools/mutation_sweep.py [Cxx ...] [--tier quick|thorough]

Each entry of MUTS is one textual edit of src/mxlpy that breaks a property. The edit is made in a scratch
worktree of /repo (outside /repo and /verif, removed at the end), the check runs against it through PYTHONPATH
(the editable install of /repo is shadowed), and evidence/replays of these runs go to a scratch VERIF_OUT.
Prints one JSON line per mutant; exit 0 iff every non-equivalent mutant was caught.
"""
import json
import os
import subprocess
import sys
import tempfile

MUTS = [
    ("C01", "model.py", "        for k, sd in cache.dyn_stoich_by_cpds.items():\n            for flux, dv in sd.items():\n                n = dv.calculate(dependent)\n                dxdt[k] += n * dependent[flux]\n        return tuple(", "        return tuple(", "drop dynamic coefficients in __call__", False),
    ("C01", "model.py", "        args[\"time\"] = time\n\n        containers", "        args[\"time\"] = 0.0 if not cache.dyn_order else time\n\n        containers", "time ignored when nothing dynamic", False),
    ("C02", "model.py", "    max_iterations = len(elements) ** 2", "    max_iterations = len(elements) * 2", "cap 2n instead of n^2", False),
    ("C03", "model.py", "    @_invalidate_cache\n    def update_derived(", "    def update_derived(", "update_derived without cache invalidation", False),
    ("C03", "model.py", "    @_invalidate_cache\n    def remove_reaction(", "    def remove_reaction(", "remove_reaction without cache invalidation", False),
    ("C04", "simulator.py", "        if t_end <= prior_t_end:\n            msg = \"End time point has to be larger than previous end time point\"\n            raise ValueError(msg)\n\n        if self._time_shift is not None:\n            t_end -= self._time_shift", "        if t_end < prior_t_end:\n            msg = \"End time point has to be larger than previous end time point\"\n            raise ValueError(msg)\n\n        if self._time_shift is not None:\n            t_end -= self._time_shift", "< instead of <= in simulate", False),
    ("C10", "simulation.py", "            if v > 0\n        ]", "            if v >= 0\n        ]", "producers with >= (differs only for a coefficient that is exactly 0)", False),
    ("C13", "model.py", "                if all(i in all_parameter_names for i in derived.args):\n                    static_order.append(name)\n                    all_parameter_names.add(name)", "                if all(i in parameter_names for i in derived.args):\n                    static_order.append(name)\n                    all_parameter_names.add(name)", "classify derived parameters by direct dependence only", False),
    ("C14", "simulator.py", "            self.model.update_parameters(pars.to_dict())\n            self.simulate(t_start + t_end.total_seconds(), steps=time_points_per_step)", "            self.simulate(t_start + t_end.total_seconds(), steps=time_points_per_step)\n            self.model.update_parameters(pars.to_dict())", "protocol applies parameters after simulating the step", False),
    ("C15", "integrators/int_scipy.py", "            if np.linalg.norm(diff, ord=2) < tolerance:", "            if np.linalg.norm(diff, ord=2) < max(tolerance, 1e-2):", "steady-state tolerance floor 1e-2", False),
    ("C16", "linear_label_map.py", "fn=_one_div, args=[product.split(\"__\")[0]]", "fn=_one_div, args=[substrate.split(\"__\")[0] if substrate != \"EXT\" else product.split(\"__\")[0]]", "product gain divided by the substrate pool", False),
    ("C18", "mca.py", "        # Reset\n        model.update_parameters({par: old})\n        elasticity_coef", "        elasticity_coef", "parameter_elasticities forgets the reset", False),
    ("C19", "parallel.py", "    tmp.replace(file)", "    tmp.replace(file) if file.suffix == \".p\" else None\n    file.touch()", "touch final file after the rename (equivalent: no intermediate state)", True),
    ("C20", "fit/routines.py", "    for p in settings.p_names:\n        model.update_parameter(p, updates[p])\n    for p in settings.v_names:\n        model.update_variable(p, updates[p])\n\n    res = (\n        Simulator(\n            model,\n            integrator=settings.integrator,\n        )\n        .simulate_time_course(", "    for p in settings.p_names[:1]:\n        model.update_parameter(p, updates[p])\n    for p in settings.v_names:\n        model.update_variable(p, updates[p])\n\n    res = (\n        Simulator(\n            model,\n            integrator=settings.integrator,\n        )\n        .simulate_time_course(", "time-course residual applies only the first fitted parameter", False),
]


def main() -> int:
    args = sys.argv[1:]
    tier = "quick"
    if "--tier" in args:
        i = args.index("--tier")
        tier = args[i + 1]
        del args[i:i + 2]
    here = os.path.dirname(os.path.dirname(os.path.abspath(__file__)))
    wt = tempfile.mkdtemp(prefix="mutwt-")
    os.rmdir(wt)
    out = tempfile.mkdtemp(prefix="mutout-")
    subprocess.run(["git", "-C", "/repo", "worktree", "add", "-q", wt, "HEAD"], check=True)
    missed = 0
    try:
        for prop, f, old, new, desc, equivalent in MUTS:
            if args and prop not in args:
                continue
            subprocess.run(["git", "-C", wt, "checkout", "--", "."], check=True)
            p = f"{wt}/src/mxlpy/{f}"
            s = open(p).read()
            if s.count(old) != 1:
                print(json.dumps({"prop": prop, "desc": desc, "error": f"pattern count {s.count(old)}"}))
                missed += 1
                continue
            open(p, "w").write(s.replace(old, new))
            r = subprocess.run([f"{here}/check", prop, "--tier", tier], capture_output=True, text=True,
                               env=dict(os.environ, PYTHONPATH=f"{wt}/src", VERIF_OUT=out), cwd=here)
            lines = [ln[:160] for ln in r.stdout.splitlines() if ln.startswith(("VIOLATION", "HELD", "INCONCLUSIVE", "  violation"))][:3]
            caught = r.returncode == 1
            if not caught and not equivalent:
                missed += 1
            print(json.dumps({"prop": prop, "desc": desc, "equivalent": equivalent, "exit": r.returncode, "caught": caught, "lines": lines}), flush=True)
    finally:
        subprocess.run(["git", "-C", "/repo", "worktree", "remove", "--force", wt], check=False)
        subprocess.run(["rm", "-rf", out, wt], check=False)
    return 1 if missed else 0


if __name__ == "__main__":
    sys.exit(main())
