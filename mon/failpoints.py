"""Source-free failpoints: sys.monitoring LINE events that kill the process, and
RLIMIT_FSIZE + default SIGXFSZ so that the kernel kills a writer when its file
reaches an exact byte size.  Armed in a forked child only."""

from __future__ import annotations

import os
import resource
import signal
import sys
from typing import Any

TOOL = 3


def executable_lines(fn: Any) -> list[int]:
    code = fn.__code__
    lines = sorted({ln for _, _, ln in code.co_lines() if ln is not None and ln != code.co_firstlineno})
    return lines


def arm_line_exit(fn: Any, line: int, hit: int, exit_code: int = 137) -> None:
    """os._exit at the `hit`-th execution of `line` of `fn` (this process and its forks)."""
    mon = sys.monitoring
    code = fn.__code__
    state = {"n": 0}
    try:
        mon.use_tool_id(TOOL, "verif-failpoint")
    except ValueError:
        pass

    def on_line(c: Any, ln: int) -> Any:
        if c is not code or ln != line:
            return mon.DISABLE
        state["n"] += 1
        if state["n"] >= hit:
            os._exit(exit_code)
        return None

    mon.register_callback(TOOL, mon.events.LINE, on_line)
    mon.set_local_events(TOOL, code, mon.events.LINE)


def arm_line_raise(fn: Any, line: int, hit: int, exc: type[BaseException] = KeyboardInterrupt) -> dict:
    """Raise `exc` once, at the `hit`-th execution of `line` of `fn` (an interrupted run in a process that lives on)."""
    mon = sys.monitoring
    code = fn.__code__
    state = {"n": 0, "raised": 0, "armed": True}
    try:
        mon.use_tool_id(TOOL, "verif-failpoint")
    except ValueError:
        pass

    def on_line(c: Any, ln: int) -> Any:
        if c is not code or ln != line:
            return mon.DISABLE
        if not state["armed"]:
            return None
        state["n"] += 1
        if state["n"] == hit:
            state["raised"] += 1
            raise exc("injected at a failpoint")
        return None

    mon.register_callback(TOOL, mon.events.LINE, on_line)
    mon.set_local_events(TOOL, code, mon.events.LINE)
    return state


def arm_byte_kill(fn: Any, hit: int, nbytes: int) -> None:
    """At the `hit`-th entry of `fn` limit the size of any file this process writes to `nbytes`
    and restore the default SIGXFSZ action, so the kernel kills the writer at exactly that size."""
    mon = sys.monitoring
    code = fn.__code__
    state = {"n": 0}
    try:
        mon.use_tool_id(TOOL, "verif-failpoint")
    except ValueError:
        pass

    def on_start(c: Any, _offset: int) -> Any:
        if c is not code:
            return mon.DISABLE
        state["n"] += 1
        if state["n"] == hit:
            signal.signal(signal.SIGXFSZ, signal.SIG_DFL)
            resource.setrlimit(resource.RLIMIT_FSIZE, (nbytes, resource.RLIM_INFINITY))
        return None

    mon.register_callback(TOOL, mon.events.PY_START, on_start)
    mon.set_local_events(TOOL, code, mon.events.PY_START)


def arm_line_pause(fn: Any, line: int, hit: int, reached: str, go: str, max_wait: float = 30.0) -> None:
    """At the `hit`-th execution of `line` of `fn`: create the file `reached`, then wait until the file `go` exists
    (at most max_wait seconds). A schedule point: another process can be run in the gap."""
    import time

    mon = sys.monitoring
    code = fn.__code__
    state = {"n": 0}
    try:
        mon.use_tool_id(TOOL, "verif-failpoint")
    except ValueError:
        pass

    def on_line(c: Any, ln: int) -> Any:
        if c is not code or ln != line:
            return mon.DISABLE
        state["n"] += 1
        if state["n"] == hit:
            open(reached, "w").close()
            t0 = time.time()
            while not os.path.exists(go) and time.time() - t0 < max_wait:
                time.sleep(0.01)
        return None

    mon.register_callback(TOOL, mon.events.LINE, on_line)
    mon.set_local_events(TOOL, code, mon.events.LINE)
