"""icontract attachments to the real classes (record-and-return conditions).

Conditions never raise into the code they observe: they count evaluations and
stash witnesses; the check's driver decides afterwards.  A registry maps
``id(model)`` to the reference (``refmodel.Ref``) the model was built from.
"""

from __future__ import annotations

import math
from collections import Counter
from typing import Any

import icontract

from mon.core import close


class PostBroken(Exception):
    pass


REG: dict[int, Any] = {}  # id(model) -> Ref
COUNT: Counter = Counter()
WITNESS: list[dict] = []
_ATTACHED = False
TOL = 1e-9


def register(model: Any, ref: Any) -> None:
    REG[id(model)] = ref


def unregister(model: Any) -> None:
    REG.pop(id(model), None)


def reset() -> None:
    COUNT.clear()
    WITNESS.clear()
    REG.clear()


def _w(where: str, what: str, **kw: Any) -> None:
    if len(WITNESS) < 50:
        WITNESS.append({"where": where, "what": what, **kw})


def _close_scaled(g: Any, e: Any, scale: float) -> bool:
    """close() with the tolerance tied to the magnitude of the summed terms when that is larger than the value itself."""
    if close(g, e, TOL):
        return True
    try:
        return math.isfinite(float(g)) and abs(float(g) - float(e)) <= TOL * max(1.0, abs(float(e)), float(scale))
    except (TypeError, ValueError, OverflowError):
        return False


def _cmp_named(where: str, got: dict, exp: dict, *, names_exact: bool, order: list[str] | None = None, ctx: Any = None, scales: dict | None = None) -> None:
    if names_exact and set(got) != set(exp):
        _w(where, "name set differs", got=sorted(got), expected=sorted(exp), ctx=ctx)
        return
    if order is not None and list(got) != order:
        _w(where, "order differs", got=list(got), expected=order, ctx=ctx)
    for k, v in got.items():
        if k not in exp:
            _w(where, "unexpected name", name=k, ctx=ctx)
        elif not _finite(exp[k]):
            COUNT["skipped:non-finite reference value (outside the functions' domain)"] += 1
        elif not (close(v, exp[k], TOL) if scales is None else _close_scaled(v, exp[k], scales.get(k, 0.0))):
            _w(where, "value differs", name=k, got=float(v), expected=float(exp[k]), ctx=ctx)


def _finite(x: Any) -> bool:
    try:
        return math.isfinite(float(x))
    except (TypeError, ValueError, OverflowError):
        return False


def _domain_ok(values: Any) -> bool:
    """States far outside the sampled domain (an integrator chasing a blow-up) are not compared:
    cancellation in different summation orders would be judged at 1e-9."""
    try:
        ok = all(math.isfinite(float(v)) and abs(float(v)) < 1e6 for v in values)
    except (TypeError, ValueError, OverflowError):
        ok = False
    if not ok:
        COUNT["skipped:state outside sampled domain"] += 1
    return ok


def _state_of(ref: Any, variables: Any) -> dict | None:
    if variables is None:
        return None
    return {k: float(v) for k, v in dict(variables).items()}


# ---- conditions (named defs; argument names match the wrapped function) ----


def post_call(self: Any, time: Any, variables: Any, result: Any) -> bool:
    ref = REG.get(id(self))
    if ref is None:
        return True
    COUNT["Model.__call__"] += 1
    vals = [float(v) for v in variables]
    if not _domain_ok(vals):
        return True
    if len(vals) != len(ref.variables):
        _w("__call__", "state length", n=len(vals))
        return True
    state = dict(zip(ref.variables, vals))
    exp = ref.rhs(state, float(time))
    scl = ref.rhs_scale(state, float(time))
    res = list(result)
    if len(res) != len(ref.variables):
        _w("__call__", "result length differs", got=len(res), expected=len(ref.variables))
        return True
    for v, g in zip(ref.variables, res):
        if not _finite(exp[v]):
            COUNT["skipped:non-finite reference value (outside the functions' domain)"] += 1
        elif not _close_scaled(g, exp[v], scl[v]):
            _w("__call__", "value differs (declaration-order vector)", name=v, got=float(g), expected=exp[v], ctx={"t": float(time), "state": state})
    return True


def post_rhs(self: Any, variables: Any, time: Any, result: Any) -> bool:
    ref = REG.get(id(self))
    if ref is None:
        return True
    COUNT["Model.get_right_hand_side"] += 1
    exp = ref.rhs(_state_of(ref, variables), float(time))
    _cmp_named("get_right_hand_side", dict(result), exp, names_exact=True, order=list(ref.variables), ctx={"t": float(time), "state": _state_of(ref, variables)},
               scales=ref.rhs_scale(_state_of(ref, variables), float(time)))
    return True


def post_fluxes(self: Any, variables: Any, time: Any, result: Any) -> bool:
    ref = REG.get(id(self))
    if ref is None:
        return True
    COUNT["Model.get_fluxes"] += 1
    vals = ref.at(_state_of(ref, variables), float(time), readouts=False)
    exp = {k: vals[k] for k in ref.flux_names()}
    _cmp_named("get_fluxes", dict(result), exp, names_exact=True, ctx={"t": float(time), "state": _state_of(ref, variables)})
    return True


def _expected_args(ref: Any, vals: dict, *, time: bool, readouts: bool) -> dict:
    exp = {}
    for k, v in vals.items():
        p = ref.provider.get(k)
        if k == "time":
            if time:
                exp[k] = v
            continue
        if p is None or p["kind"] == "data":
            continue
        if p["kind"] == "readout" and not readouts:
            continue
        exp[k] = v
    return exp


def post_args(
    self: Any, variables: Any, time: Any, include_time: Any, include_variables: Any, include_parameters: Any,
    include_derived_parameters: Any, include_derived_variables: Any, include_reactions: Any,
    include_surrogate_variables: Any, include_surrogate_fluxes: Any, include_readouts: Any, result: Any,
) -> bool:
    ref = REG.get(id(self))
    if ref is None:
        return True
    COUNT["Model.get_args"] += 1
    default_flags = all((include_time, include_variables, include_parameters, include_derived_parameters,
                         include_derived_variables, include_reactions, include_surrogate_variables, include_surrogate_fluxes))
    vals = ref.at(_state_of(ref, variables), float(time), readouts=bool(include_readouts))
    exp = _expected_args(ref, vals, time=True, readouts=bool(include_readouts))
    _cmp_named("get_args", dict(result), exp, names_exact=default_flags, ctx={"t": float(time), "state": _state_of(ref, variables)})
    return True


def post_args_tc(
    self: Any, variables: Any, include_variables: Any, include_parameters: Any,
    include_derived_parameters: Any, include_derived_variables: Any, include_reactions: Any,
    include_surrogate_variables: Any, include_surrogate_fluxes: Any, include_readouts: Any, result: Any,
) -> bool:
    ref = REG.get(id(self))
    if ref is None:
        return True
    COUNT["Model.get_args_time_course"] += 1
    default_flags = all((include_variables, include_parameters, include_derived_parameters,
                         include_derived_variables, include_reactions, include_surrogate_variables, include_surrogate_fluxes))
    if list(result.index) != list(variables.index):
        _w("get_args_time_course", "index differs", got=list(result.index), expected=list(variables.index))
        return True
    for t, row in variables.iterrows():
        state = {k: float(v) for k, v in row.to_dict().items()}
        if not _domain_ok(state.values()):
            continue
        vals = ref.at(state, float(t), readouts=bool(include_readouts))
        exp = _expected_args(ref, vals, time=False, readouts=bool(include_readouts))
        got = result.loc[t].to_dict()
        _cmp_named("get_args_time_course", got, exp, names_exact=default_flags, ctx={"t": float(t), "state": state})
    return True


def post_fluxes_tc(self: Any, variables: Any, result: Any) -> bool:
    ref = REG.get(id(self))
    if ref is None:
        return True
    COUNT["Model.get_fluxes_time_course"] += 1
    if list(result.index) != list(variables.index):
        _w("get_fluxes_time_course", "index differs")
        return True
    for t, row in variables.iterrows():
        state = {k: float(v) for k, v in row.to_dict().items()}
        if not _domain_ok(state.values()):
            continue
        vals = ref.at(state, float(t), readouts=False)
        exp = {k: vals[k] for k in ref.flux_names()}
        _cmp_named("get_fluxes_time_course", result.loc[t].to_dict(), exp, names_exact=True, ctx={"t": float(t), "state": state})
    return True


def post_rhs_tc(self: Any, args: Any, result: Any) -> bool:
    ref = REG.get(id(self))
    if ref is None:
        return True
    COUNT["Model.get_right_hand_side_time_course"] += 1
    if len(result) != len(args):
        _w("get_right_hand_side_time_course", "row count differs", got=len(result), expected=len(args))
        return True
    for (t, row), (_, got) in zip(args.iterrows(), result.iterrows()):
        state = {k: float(row[k]) for k in ref.variables}
        if not _domain_ok(state.values()):
            continue
        exp = ref.rhs(state, float(t))
        _cmp_named("get_right_hand_side_time_course", got.to_dict(), exp, names_exact=True, order=list(ref.variables), ctx={"t": float(t), "state": state}, scales=ref.rhs_scale(state, float(t)))
    return True


def post_stoich(self: Any, variables: Any, time: Any, result: Any) -> bool:
    ref = REG.get(id(self))
    if ref is None:
        return True
    COUNT["Model.get_stoichiometries"] += 1
    vals = ref.at(_state_of(ref, variables), float(time), readouts=False)
    exp = ref.stoichiometry(vals)
    got = {v: {f: float(result.loc[v, f]) for f in result.columns} for v in result.index}
    for v, row in exp.items():
        for f, c in row.items():
            g = got.get(v, {}).get(f)
            if g is None or not close(g, c, TOL):
                _w("get_stoichiometries", "coefficient differs", variable=v, flux=f, got=g, expected=c)
    for v, row in got.items():
        for f, g in row.items():
            if f not in exp.get(v, {}) and g != 0:
                _w("get_stoichiometries", "spurious coefficient", variable=v, flux=f, got=g)
    return True


def post_stoich_of(self: Any, variable: Any, variables: Any, time: Any, result: Any) -> bool:
    ref = REG.get(id(self))
    if ref is None:
        return True
    COUNT["Model.get_stoichiometries_of_variable"] += 1
    vals = ref.at(_state_of(ref, variables), float(time), readouts=False)
    exp = ref.stoichiometry(vals).get(variable, {})
    got = {f: float(c) for f, c in dict(result).items()}
    for f, c in exp.items():
        if f not in got or not close(got[f], c, TOL):
            _w("get_stoichiometries_of_variable", "coefficient differs", variable=variable, flux=f, got=got.get(f), expected=c, t=float(time))
    for f, g in got.items():
        if f not in exp and g != 0:
            _w("get_stoichiometries_of_variable", "spurious coefficient", variable=variable, flux=f, got=g)
    return True


def attach_model() -> None:
    """Wrap the class attributes of mxlpy.Model (idempotent)."""
    global _ATTACHED  # noqa: PLW0603
    if _ATTACHED:
        return
    from mxlpy.model import Model

    def wrap(name: str, cond: Any) -> None:
        setattr(Model, name, icontract.ensure(cond, error=PostBroken)(getattr(Model, name)))

    wrap("__call__", post_call)
    wrap("get_right_hand_side", post_rhs)
    wrap("get_fluxes", post_fluxes)
    wrap("get_args", post_args)
    wrap("get_args_time_course", post_args_tc)
    wrap("get_fluxes_time_course", post_fluxes_tc)
    wrap("get_right_hand_side_time_course", post_rhs_tc)
    wrap("get_stoichiometries", post_stoich)
    wrap("get_stoichiometries_of_variable", post_stoich_of)
    _ATTACHED = True
