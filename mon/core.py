"""Shared helpers: registry, seeds, numeric comparison, known findings, evidence."""

from __future__ import annotations

import hashlib
import json
import math
import os
import random
from pathlib import Path

ROOT = Path(__file__).resolve().parent.parent

REGISTRY = {
    "C01": "checks.c01_rhs",
    "C02": "checks.c02_deps",
    "C03": "checks.c03_edits",
    "C04": "checks.c04_continue",
    "C05": "checks.c05_labels",
    "C06": "checks.c06_fn2sym",
    "C07": "checks.c07_codegen",
    "C08": "checks.c08_sbml_roundtrip",
    "C09": "checks.c09_scans",
    "C10": "checks.c10_views",
    "C11": "checks.c11_mxlpy_src",
    "C12": "checks.c12_symbolic",
    "C13": "checks.c13_initial",
    "C14": "checks.c14_protocols",
    "C15": "checks.c15_steady",
    "C16": "checks.c16_linlabel",
    "C17": "checks.c17_sbml_import",
    "C18": "checks.c18_mca",
    "C19": "checks.c19_cache",
    "C20": "checks.c20_fit",
}


def rng_for(*parts: object) -> random.Random:
    """Deterministic RNG keyed by a tuple of printable parts (no hash())."""
    key = ":".join(str(p) for p in parts)
    return random.Random(int.from_bytes(hashlib.sha256(key.encode()).digest()[:8], "big"))


def close(a: float, b: float, rel: float = 1e-9, abs_: float = 0.0) -> bool:
    """|a-b| <= rel*max(1,|b|)+abs_;  NaN never equals anything, inf only itself."""
    try:
        a = float(a)
        b = float(b)
    except (TypeError, ValueError):
        return False
    if math.isnan(a) or math.isnan(b):
        return False
    if math.isinf(a) or math.isinf(b):
        return a == b
    return abs(a - b) <= rel * max(1.0, abs(b), abs(a)) + abs_


def sha(obj: object) -> str:
    return hashlib.sha256(
        json.dumps(obj, sort_keys=True, default=str).encode()
    ).hexdigest()[:16]


def load_known(prop: str) -> list[dict]:
    p = ROOT / "known_findings.json"
    if not p.exists():
        return []
    data = json.loads(p.read_text())
    return [e for e in data.get("findings", []) if e.get("property") == prop]


def jsonable(x: object) -> object:
    """Best-effort conversion of numpy/pandas scalars for JSON dumps."""
    try:
        import numpy as np

        if isinstance(x, np.generic):
            return x.item()
        if isinstance(x, np.ndarray):
            return x.tolist()
    except Exception:  # noqa: BLE001
        pass
    if isinstance(x, (set, frozenset, tuple)):
        return [jsonable(i) for i in x]
    if isinstance(x, dict):
        return {str(k): jsonable(v) for k, v in x.items()}
    if isinstance(x, list):
        return [jsonable(i) for i in x]
    if isinstance(x, float) and (math.isnan(x) or math.isinf(x)):
        return repr(x)
    if isinstance(x, (str, int, float, bool)) or x is None:
        return x
    return repr(x)


def viol(what: str, mechanism: str | None = None, **detail: object) -> dict:
    return {"what": what, "mechanism": mechanism, "detail": jsonable(detail)}


def result(
    *,
    sig: str,
    nontrivial: bool,
    violations: list[dict] | None = None,
    counters: dict[str, int] | None = None,
    sample: object = None,
    info: dict | None = None,
    sigs: list[str] | None = None,
) -> dict:
    return {
        "sigs": sigs,
        "sig": sig,
        "nontrivial": bool(nontrivial),
        "violations": violations or [],
        "counters": counters or {},
        "sample": jsonable(sample),
        "info": jsonable(info or {}),
    }


def ncpu() -> int:
    try:
        return len(os.sched_getaffinity(0))
    except AttributeError:
        return os.cpu_count() or 4


class TimeLimit(Exception):
    pass


class time_limit:  # noqa: N801
    """Context manager: raise TimeLimit inside the block after `seconds` (nests with the worker's case alarm)."""

    def __init__(self, seconds: int) -> None:
        self.seconds = max(1, int(seconds))

    def __enter__(self):  # noqa: ANN204
        import signal

        def _h(_s, _f):  # noqa: ANN001, ANN202
            raise TimeLimit

        self._remaining = signal.alarm(0)
        self._old = signal.signal(signal.SIGALRM, _h)
        signal.alarm(self.seconds)
        return self

    def __exit__(self, *exc):  # noqa: ANN002, ANN204
        import signal

        signal.alarm(0)
        signal.signal(signal.SIGALRM, self._old)
        if self._remaining:
            signal.alarm(max(1, self._remaining - self.seconds))
        return False


def term_scales(model, t: float, y: list[float]) -> list[float]:  # noqa: ANN001
    """Per variable (declaration order): sum over fluxes of |coefficient x flux| at this state - the magnitude against
    which a derivative's rounding error is measured (a derivative can be a small difference of large terms, and a model
    in other units has derivatives of 1e-9 or 1e+9 that deserve the same relative scrutiny as ones of order 1)."""
    names = model.get_variable_names()
    st = dict(zip(names, y))
    n_ = model.get_stoichiometries(st, t)
    v = model.get_fluxes(st, t)
    out = []
    for name in names:
        if name in n_.index:
            out.append(float(sum(abs(float(n_.loc[name, f]) * float(v[f])) for f in n_.columns)))
        else:
            out.append(0.0)
    return out
