"""Schedule perturbation for scans: picklable wrappers around the real workers.

The public ``worker=`` parameter of scan.* / mc.* receives ``Wrapped(kind)``;
each call logs (pid, start, end, tag) to an O_APPEND file, sleeps a
pseudo-random 0-30 ms derived from the row's own parameter values (so that
completion order differs from submission order) and then calls the real worker.
"""

from __future__ import annotations

import hashlib
import os
import time
from typing import Any


def _log(line: str) -> None:
    path = os.environ.get("VERIF_SCANLOG")
    if not path:
        return
    fd = os.open(path, os.O_WRONLY | os.O_APPEND | os.O_CREAT, 0o644)
    try:
        os.write(fd, (line + "\n").encode())
    finally:
        os.close(fd)


class Wrapped:
    def __init__(self, kind: str, max_delay_ms: int = 30) -> None:
        self.kind = kind
        self.max_delay_ms = max_delay_ms

    def _real(self):  # noqa: ANN202
        from mxlpy import mc, scan

        return {
            "steady_state": scan._steady_state_worker,  # noqa: SLF001
            "time_course": scan._time_course_worker,  # noqa: SLF001
            "protocol": scan._protocol_worker,  # noqa: SLF001
            "protocol_time_course": scan._protocol_time_course_worker,  # noqa: SLF001
            "scan_steady_state": mc._parameter_scan_worker,  # noqa: SLF001
        }[self.kind]

    def __call__(self, model: Any, *args: Any, **kwargs: Any) -> Any:
        raw = [(k, repr(v.value)) for k, v in model.get_raw_parameters(as_copy=False).items()]
        raw += [(k, repr(v.initial_value)) for k, v in model.get_raw_variables(as_copy=False).items()]
        tag = hashlib.sha256(repr(sorted(raw)).encode()).hexdigest()[:10]
        delay = (int(tag, 16) % (self.max_delay_ms + 1)) / 1000.0
        t0 = time.monotonic()
        time.sleep(delay)
        try:
            return self._real()(model, *args, **kwargs)
        finally:
            _log(f"{os.getpid()} {t0:.6f} {time.monotonic():.6f} {tag}")


def flaky_scipy(rhs: Any, y0: Any, jacobian: Any = None):  # noqa: ANN201
    """IntegratorType: the real Scipy integrator, except that a model whose flag parameter ``kz`` is 0
    fails every integration immediately (injected fault: a row that fails)."""
    from mxlpy.integrators import Scipy

    integ = Scipy(rhs, y0, jacobian)
    try:
        failing = float(rhs.get_parameter_values().get("kz", 1.0)) == 0.0
    except Exception:  # noqa: BLE001
        failing = False
    if failing:
        return _AlwaysFails(integ)
    try:
        has_deadline = "kzt" in rhs.get_parameter_values()
    except Exception:  # noqa: BLE001
        has_deadline = False
    if has_deadline:
        return _FailsAfterDeadline(integ, rhs)
    return integ


class _FailsAfterDeadline:
    """Integrates normally until asked to go beyond the model's parameter ``kzt`` (read at every call): a row whose
    integration fails in a LATER segment, after earlier segments succeeded."""

    def __init__(self, inner: Any, model: Any) -> None:
        self.inner = inner
        self.model = model
        self.y0 = inner.y0

    def reset(self) -> None:
        self.inner.reset()

    def _late(self, t: float) -> bool:
        try:
            return float(t) > float(self.model.get_parameter_values().get("kzt", 1e300))
        except Exception:  # noqa: BLE001
            return False

    def _fail(self):  # noqa: ANN202
        from mxlpy.types import IntegrationFailure, Result

        return Result(IntegrationFailure())

    def integrate(self, *, t_end: float, steps: int | None = None):  # noqa: ANN201
        return self._fail() if self._late(t_end) else self.inner.integrate(t_end=t_end, steps=steps)

    def integrate_time_course(self, *, time_points: Any):  # noqa: ANN201
        return self._fail() if self._late(max(time_points)) else self.inner.integrate_time_course(time_points=time_points)

    def integrate_to_steady_state(self, *, tolerance: float, rel_norm: bool):  # noqa: ANN201
        return self.inner.integrate_to_steady_state(tolerance=tolerance, rel_norm=rel_norm)


class _AlwaysFails:
    def __init__(self, inner: Any) -> None:
        self.inner = inner
        self.y0 = inner.y0

    def reset(self) -> None:
        self.inner.reset()

    def _fail(self):  # noqa: ANN202
        from mxlpy.types import IntegrationFailure, Result

        return Result(IntegrationFailure())

    def integrate(self, *, t_end: float, steps: int | None = None):  # noqa: ANN201, ARG002
        return self._fail()

    def integrate_time_course(self, *, time_points: Any):  # noqa: ANN201, ARG002
        return self._fail()

    def integrate_to_steady_state(self, *, tolerance: float, rel_norm: bool):  # noqa: ANN201, ARG002
        return self._fail()
