"""Functions mapped by the cache workloads (module level: picklable). Every call is logged to an O_APPEND side file."""

from __future__ import annotations

import os


def _log(key: object) -> None:
    path = os.environ.get("VERIF_CALLLOG")
    if path:
        fd = os.open(path, os.O_WRONLY | os.O_APPEND | os.O_CREAT, 0o644)
        try:
            os.write(fd, f"{key}\n".encode())
        finally:
            os.close(fd)


def small(x: int) -> tuple:
    _log(x)
    return (x, x * x, "p" * (5 + x % 7), [x / 3.0, x / 7.0])


def small_alt(x: int) -> tuple:
    """Another computation over the same keys (what a changed model / function gives)."""
    _log(x)
    return (x, x * x * x, "q" * (3 + x % 5), [x / 2.0, x / 5.0, 1.0])


def falsy(x: int):  # noqa: ANN201
    """Results that are legitimate values but false in a boolean context (no solution found, empty, zero)."""
    _log(x)
    return [None, 0, "", [], False, 0.0, {}, (x,)][x % 8]


def medium(x: int) -> dict:
    _log(x)
    return {"key": x, "data": [float(i * x) for i in range(300)], "text": "t" * 200}


class LoggedWorker:
    """A scan/mc `worker=` that logs every call and then does what the routine's own default worker does (picklable)."""

    def __init__(self, module: str, routine: str) -> None:
        self.module, self.routine = module, routine

    def __call__(self, *args, **kwargs):  # noqa: ANN002, ANN003, ANN204
        import importlib
        import inspect

        _log(f"{self.module}.{self.routine}")
        fn = getattr(importlib.import_module(self.module), self.routine)
        return inspect.signature(fn).parameters["worker"].default(*args, **kwargs)
