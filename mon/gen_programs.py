"""Generator of Python function bodies in (and just outside) the subset that
mxlpy.meta.source_tools translates.  Produces module source text; every
function takes 1..3 float parameters and returns a float.
"""

from __future__ import annotations

PARAMS = ["x", "y", "z"]

HELPER_SRC = '''"""helper module (other module): imported as `import {helper}` / `from {helper} import h2`"""
import math

HC = 1.75


def h1(a):
    return a * 0.5 + 0.25


def h2(a, b):
    return a - 2.0 * b


def h3(p, q):
    r = p * q
    return r + p


def h4(a, b=1.5, c=0.5, d=2.0):
    return a * b + c / (1.0 + d * d)


def h5(x=0.5, y=2.0):
    """parameters with defaults that are called like the callers' own parameters"""
    return x * 2.0 + y
'''


class Gen:
    def __init__(self, rng, helper: str) -> None:  # noqa: ANN001
        self.rng = rng
        self.helper = helper
        self.features: set[str] = set()

    # ---- expressions -------------------------------------------------------
    def const(self) -> str:
        return self.rng.choice(["0.5", "2.0", "1.0", "3.0", "1", "2", "0.25", "1.5"])

    def atom(self, names: list[str]) -> str:
        r = self.rng.random()
        if r < 0.6:
            return self.rng.choice(names)
        if r < 0.85:
            return self.const()
        if r < 0.91:
            self.features.add("module_constant")
            return "C1"
        if r < 0.93:
            # float constants reached through dotted module paths of different depth that end in a module of the same name
            self.features.add("nested_module_constant")
            return self.rng.choice(["kinlib.thermo.constants.R", "kinlib.constants.R", "kinlib.thermo.constants.T0", "kinlib.constants.T0"])
        self.features.add("math_constant")
        return self.rng.choice(["math.pi", "math.e"])

    def expr(self, names: list[str], depth: int = 2, fns: list[tuple[str, int]] | None = None) -> str:
        rng = self.rng
        if depth <= 0 or rng.random() < 0.25:
            return self.atom(names)
        r = rng.random()
        a = self.expr(names, depth - 1, fns)
        b = self.expr(names, depth - 1, fns)
        if r < 0.2:
            return f"({a} + {b})"
        if r < 0.35:
            return f"({a} - {b})"
        if r < 0.5:
            return f"({a} * {b})"
        if r < 0.6:
            self.features.add("div")
            return f"({a} / (1.0 + {b} * {b}))"
        if r < 0.66:
            self.features.add("pow")
            return f"({a} ** 2)"
        if r < 0.7:
            return f"(-{a})"
        if r < 0.74:
            self.features.add("mod_floordiv")
            return rng.choice([f"({a} % 3.0)", f"({a} // 2.0)"])
        if r < 0.84:
            self.features.add("ifexp")
            return f"({a} if {self.cond(names, depth - 1)} else {b})"
        if r < 0.94 and fns:
            name, ar = rng.choice(fns)
            self.features.add("nested_call")
            args = ", ".join(self.expr(names, depth - 1, None) for _ in range(ar))
            if name.endswith((".h4", ".h5")):
                self.features.add("call_leaving_parameters_to_their_defaults" if ar < (4 if name.endswith(".h4") else 2) else "call_of_a_helper_with_defaults_giving_all")
            return f"{name}({args})"
        if r < 0.97:
            self.features.add("math_call")
            return rng.choice([f"math.exp(-({a}) ** 2)", f"math.sqrt(1.0 + ({a}) ** 2)", f"abs({a})"])
        return self.atom(names)

    def cond(self, names: list[str], depth: int = 1) -> str:
        rng = self.rng
        a = self.expr(names, depth)
        b = self.expr(names, depth)
        r = rng.random()
        if r < 0.55:
            op = rng.choice(["<", "<=", ">", ">="])
            return f"{a} {op} {b}"
        if r < 0.75:
            self.features.add("eq_ne")
            op = rng.choice(["==", "!="])
            # compare simple things so that equality really happens on the lattice
            return f"{rng.choice(names)} {op} {rng.choice([*names, '1.0', '0.5', '2.0', '0.0', '1'])}"
        self.features.add("chained_compare")
        c = self.expr(names, 0)
        if rng.random() < 0.35:
            # equality links anywhere in the chain, also first, and chains of three links; plain operands so that the
            # equalities really hold on the lattice of evaluation points
            self.features.add("eq_ne")
            ops = [rng.choice(["!=", "==", "<", "<=", ">"]) for _ in range(rng.choice([2, 2, 3]))]
            if not any(o in ("!=", "==") for o in ops[:-1]):
                ops[0] = rng.choice(["!=", "=="])
            operands = [rng.choice([*names, "1.0", "0.5", "2.0"]) for _ in range(len(ops) + 1)]
            out = operands[0]
            for o, x in zip(ops, operands[1:]):
                out += f" {o} {x}"
            return out
        op1, op2 = rng.choice(["<", "<="]), rng.choice(["<", "<=", "!=", "=="])
        return f"{a} {op1} {b} {op2} {c}"

    # ---- function bodies ------------------------------------------------------
    def function(self, name: str, nparams: int, fns: list[tuple[str, int]]) -> tuple[str, set[str]]:
        rng = self.rng
        self.features = set()
        params = PARAMS[:nparams]
        names = list(params)
        lines: list[str] = []
        kind = rng.choice(["expr", "assign", "tuple_assign", "if_return", "if_elif_else_return", "if_fallthrough", "branch_assign",
                           "branch_reassign_live", "post_if_statements", "nested_if", "outside",
                           "random_block", "random_block", "random_block", "random_block", "local_import", "call_compound_args", "table_call"])
        own = [(n, ar) for n, ar in fns if n.startswith("f") and n[1:].isdigit() and ar >= 2]
        if kind == "table_call":
            # a function of the translator's own table of known functions (math / numpy / built-ins) applied to the
            # function's arguments, not to constants: translated to the same function, or refused
            a, b = rng.choice(params), rng.choice(params)
            call = rng.choice([
                f"np.maximum({a}, {b})", f"np.minimum({a}, {b})", f"np.maximum({a}, 1.0)", f"np.minimum(1.5, {b})", f"math.remainder({a}, 2.0)",
                f"math.remainder({a}, 1.0 + {b} * {b})", f"np.mod({a}, 2.0)", f"np.cbrt({a} - 1.5)", f"math.cbrt({a} - 1.5)", f"np.positive({a} - 1.5)",
                f"np.sign({a} - 1.0)", f"math.atan2({a}, {b})", f"np.arctan2({a}, {b})", f"math.trunc({a} - 1.5)", f"np.trunc({a} - 1.5)", f"math.ceil({a})", f"np.floor({a})",
                f"math.erf({a})", f"math.radians({a})", f"math.pow(1.0 + {a} * {a}, {b})", f"np.power(1.0 + {a} * {a}, {b})", f"np.add({a}, {b})", f"math.gamma(1.0 + {a})",
                f"np.absolute({a} - 1.5)", f"np.conjugate({a})", f"np.arcsinh({a})", f"math.log(1.0 + {a} * {a})", f"np.tanh({a})",
                f"(2.0 if np.less({a}, {b}) else 0.5)", f"(2.0 if np.greater({a}, {b}) else 0.5)", f"(2.0 if np.less_equal({a}, 1.0) else 0.5)", f"(2.0 if np.greater_equal({a}, 1.0) else 0.5)",
            ])
            if rng.random() < 0.4:
                # the same table applied to constants (the result is a number the translator computes itself)
                call = rng.choice([
                    "np.positive(-1.5)", "(2.0 if np.less(1.0, 1.0) else 0.5)", "(2.0 if np.greater(1.0, 1.0) else 0.5)", "(2.0 if np.less_equal(1.0, 1.0) else 0.5)",
                    "(2.0 if np.greater_equal(1.5, 1.0) else 0.5)", "math.remainder(5.0, 2.0)", "math.remainder(3.0, 2.0)", "math.cbrt(-8.0)", "np.cbrt(-8.0)", "np.sign(-2.0)",
                    "math.trunc(-1.5)", "np.trunc(-1.5)", "np.mod(-3.0, 2.0)", "math.atan2(-1.0, -1.0)", "np.power(2.0, 0.5)", "math.ceil(-1.5)", "np.floor(-1.5)", "math.erf(0.5)",
                    "math.gamma(2.5)", "math.factorial(4)", "math.gcd(12, 18)", "math.lcm(4, 6)", "np.conjugate(1.5)", "np.add(1.5, 2.0)", "np.maximum(1.5, 0.5)", "np.minimum(1.5, 0.5)",
                    "math.radians(90.0)", "math.pow(2.0, 3.0)", "np.absolute(-2.5)", "abs(-2.5)", "max(1.5, 0.5, 2.5)", "min(1.5, 0.5)", "pow(2.0, 0.5)", "math.log(2.5)", "np.arctan2(1.0, -1.0)",
                ]) + f" * {a}"
                self.features.add("known_function_of_constants")
            if rng.random() < 0.35:
                # any one- or two-argument function of math / numpy, whether or not the translator's table lists it (a new
                # table entry is covered the day it is added): on constants of either sign, or on the arguments
                cand = _module_functions()
                mod, fn_, nin = cand[rng.randrange(len(cand))]
                if rng.random() < 0.6:
                    one, two = rng.choice(["-1.5", "0.5", "2.5", "-0.25"]), rng.choice(["-5.5, 2.0", "5.5, -2.0", "2.5, 1.5", "-1.5, -0.5", "7.0, 3.0"])
                    call = f"{mod}.{fn_}({one if nin == 1 else two}) * {a}"
                else:
                    call = f"{mod}.{fn_}({a} - 1.5)" if nin == 1 else f"{mod}.{fn_}({a} - 1.5, {b} - 1.25)"
                self.features.add("function_drawn_from_the_module_itself")
            self.features.add("shape:table_call")
            self.features.add("known_function_of_the_arguments:" + call.split("(")[0].replace("(2.0 if ", "").strip())
            text = f"def {name}({', '.join(params)}):\n    return {call} + 0.25 * {rng.choice(params)}\n"
            return text, set(self.features)
        if kind == "call_compound_args" and not own:
            kind = "expr"
        self.features.add(f"shape:{kind}")
        if kind == "call_compound_args":
            # a call to an earlier function of this module (parameters x, y, z) in which every argument is a compound
            # expression and the caller's names sit at other positions than the callee's parameters of the same name
            callee, ar = rng.choice(own)
            rot = (params[1:] + params[:1]) if len(params) > 1 else params
            args = [f"({rot[i % len(rot)]} {rng.choice(['+', '*', '-'])} {self.const()})" for i in range(ar)]
            self.features.add("nested_call")
            self.features.add("nested_call_with_compound_arguments_at_other_positions")
            text = f"def {name}({', '.join(params)}):\n    return {callee}({', '.join(args)}) + {self.expr(list(params), 1, None)}\n"
            return text, set(self.features)
        if kind == "random_block":
            self._n_local = 0
            lines = self.block(list(params), rng.randint(1, 3), True, fns)
            body = "\n".join("    " + ln for ln in lines)
            text = f"def {name}({', '.join(params)}):\n{body}\n"
            self.features |= block_features(text)
            return text, set(self.features)
        E = lambda d=2: self.expr(names, d, fns)  # noqa: E731
        C = lambda: self.cond(names)  # noqa: E731
        if kind == "local_import":
            # a function-local import binds h1 to the helper module's h1 inside this function, although the module itself
            # defines another h1: the local binding is what a plain call means here
            if rng.random() < 0.4:
                # ... under another name: `h2` is the helper module's h3 inside this function (the module's own h2 is a - 2 b)
                lines.append(f"from {self.helper} import h3 as h2")
                lines.append(f"a = h2({E(1)}, {rng.choice(params)})")
                names.append("a")
                lines.append(f"return a + h2({rng.choice(params)}, 1.5) * {E(1)}")
                self.features.add("function_local_import_under_another_name")
            else:
                lines.append(f"from {self.helper} import h1")
                lines.append(f"a = h1({E(1)})")
                names.append("a")
                lines.append(f"return a + h1({rng.choice(params)}) * {E(1)}")
            self.features.add("nested_call")
        elif kind == "expr":
            lines.append(f"return {E(3)}")
        elif kind == "assign":
            lines.append(f"a = {E()}")
            names.append("a")
            if rng.random() < 0.5:
                lines.append(f"a = a + {E(1)}")
                self.features.add("reassign")
            lines.append(f"b = {E()}")
            names.append("b")
            lines.append(f"return {E()}")
        elif kind == "tuple_assign":
            lines.append(f"a, b = {E(1)}, {E(1)}")
            names += ["a", "b"]
            if rng.random() < 0.5:
                lines.append("a, b = b, a")
                self.features.add("tuple_swap")
            lines.append(f"return {E()}")
        elif kind == "if_return":
            lines += [f"if {C()}:", f"    return {E()}", "else:", f"    return {E()}"]
        elif kind == "if_elif_else_return":
            lines += [f"if {C()}:", f"    return {E()}", f"elif {C()}:", f"    return {E()}"]
            if rng.random() < 0.5:
                lines += [f"elif {C()}:", f"    return {E()}"]
            lines += ["else:", f"    return {E()}"]
        elif kind == "if_fallthrough":
            lines += [f"if {C()}:", f"    return {E()}"]
            if rng.random() < 0.5:
                lines += [f"if {C()}:", f"    return {E()}"]
            if rng.random() < 0.5:
                lines.append(f"a = {E(1)}")
                names.append("a")
            lines.append(f"return {E()}")
        elif kind == "branch_assign":
            lines += [f"if {C()}:", f"    a = {E()}", "else:", f"    a = {E()}"]
            names.append("a")
            lines.append(f"return {E(1)} + a")
        elif kind == "branch_reassign_live":
            lines.append(f"a = {E(1)}")
            names.append("a")
            lines += [f"if {C()}:", f"    a = a * 2.0 + {E(1)}"]
            if rng.random() < 0.4:
                lines += [f"    return a - {E(0)}"]
            lines.append(f"return a + {E(1)}")
        elif kind == "post_if_statements":
            lines += [f"if {C()}:", f"    a = {E(1)}", "else:", f"    a = {E(1)}"]
            names.append("a")
            lines.append(f"b = a * {E(1)}")
            names.append("b")
            lines.append(f"return b + {E(1)}")
        elif kind == "nested_if":
            lines += [f"if {C()}:", f"    if {C()}:", f"        return {E(1)}", f"    return {E(1)}", f"return {E(1)}"]
        else:
            sub = rng.choice(["and_or", "not", "augassign", "loop", "subscript", "lambda", "default_arg", "while", "early_return_in_loop", "keyword_call", "multi_target", "walrus", "unpack_call"])
            self.features.add(f"outside:{sub}")
            if sub == "and_or":
                lines += [f"if {C()} {rng.choice(['and', 'or'])} {C()}:", f"    return {E(1)}", f"return {E(1)}"]
            elif sub == "not":
                lines += [f"if not ({C()}):", f"    return {E(1)}", f"return {E(1)}"]
            elif sub == "augassign":
                lines += [f"a = {E(1)}", f"a += {E(1)}", "return a * 2.0"]
            elif sub == "loop":
                lines += ["a = 0.0", "for i in range(3):", f"    a = a + {params[0]} * i", "return a"]
            elif sub == "while":
                lines += ["a = 0.0", "n = 0", "while n < 2:", f"    a = a + {params[0]}", "    n = n + 1", "return a"]
            elif sub == "subscript":
                lines += [f"v = [{E(1)}, {E(1)}]", "return v[0] - v[1]"]
            elif sub == "lambda":
                lines += [f"g = lambda q: q * 2.0 + {params[0]}", f"return g({E(1)})"]
            elif sub == "keyword_call":
                lines += [f"return h2({E(1)}, b={E(1)}) + h2(b={params[0]}, a={E(1)})"]
            elif sub == "multi_target":
                lines += [f"a = b = {E(1)}", f"return a * 2.0 + b + {E(1)}"]
            elif sub == "walrus":
                lines += [f"return (q := {E(1)}) * q + {params[0]}"]
            elif sub == "unpack_call":
                lines += [f"t = ({E(1)}, {E(1)})", "return h2(*t)"]
            elif sub == "default_arg":
                lines += [f"return {E(2)}"]
            else:
                lines += ["for i in range(2):", f"    if {params[0]} > i:", f"        return {E(1)}", f"return {E(1)}"]
        sig = ", ".join(params)
        if "outside:default_arg" in self.features:
            sig = ", ".join(params[:-1] + [f"{params[-1]}=1.5"]) if len(params) > 1 else f"{params[0]}=1.5"
        elif len(params) >= 2 and rng.random() < 0.1:
            # positional-only parameters (all of them, or the leading ones): called the same way, translated right or refused
            cut = rng.randint(1, len(params))
            sig = ", ".join(params[:cut]) + ", /" + "".join(", " + q for q in params[cut:])
            self.features.add("positional_only_parameters(" + ("all" if cut == len(params) else "leading") + ")")
        body = "\n".join("    " + ln for ln in lines)
        return f"def {name}({sig}):\n{body}\n", set(self.features)

    def block(self, names: list[str], depth: int, must_return: bool, fns: list[tuple[str, int]] | None, *, top: bool = True) -> list[str]:
        """A random statement block: fresh assignments, non-idempotent re-assignments of parameters and locals,
        swaps, if/elif/else whose branches are blocks again (possibly consisting of guards only), early returns.
        `names` is extended by the locals that are defined on every path that leaves the block."""
        rng = self.rng
        lines: list[str] = []
        for _ in range(rng.randint(1, 3)):
            r = rng.random()
            if r < 0.25:
                v = f"u{self._n_local}"
                self._n_local += 1
                lines.append(f"{v} = {self.expr(names, 1, fns)}")
                names.append(v)
            elif r < 0.5:
                x = rng.choice(names)
                lines.append(rng.choice([f"{x} = {x} * 2.0", f"{x} = {x} + {self.expr(names, 1, fns)}", f"{x} = {self.expr(names, 0)} - {x}"]))
                self.features.add("reassign")
            elif r < 0.57 and len(names) >= 2:
                a, b = rng.sample(names, 2)
                lines.append(f"{a}, {b} = {b}, {a}")
                self.features.add("tuple_swap")
            elif r < 0.9 and depth > 0:
                lines.append(f"if {self.cond(names, 0)}:")
                if rng.random() < 0.3:
                    # a branch that binds nothing and may fall through: guards only
                    lines += [f"    if {self.cond(names, 0)}:", f"        return {self.expr(names, 1, fns)}"]
                else:
                    lines += ["    " + ln for ln in self.block(list(names), depth - 1, False, fns, top=False)]
                q = rng.random()
                if q < 0.25:
                    lines.append(f"elif {self.cond(names, 0)}:")
                    lines += ["    " + ln for ln in self.block(list(names), depth - 1, False, fns, top=False)]
                if q < 0.5:
                    lines.append("else:")
                    lines += ["    " + ln for ln in self.block(list(names), depth - 1, False, fns, top=False)]
                if rng.random() < 0.5:
                    x = rng.choice(names)
                    lines.append(rng.choice([f"{x} = {x} * 2.0", f"{x} = {x} + {self.expr(names, 0)}"]))
                    self.features.add("reassign")
            elif not top:
                lines.append(f"return {self.expr(names, 1, fns)}")
                return lines
        if not lines:
            x = rng.choice(names)
            lines.append(f"{x} = {x} * 2.0")
        if must_return:
            lines.append(f"return {self.expr(names, 2, fns)}")
        return lines

    def module(self, nfun: int = 6, sweep_slice: tuple[int, int] | None = None) -> tuple[str, list[dict]]:
        rng = self.rng
        head = f'"""generated"""\nimport math\nimport numpy as np\nimport kinlib.constants\nimport kinlib.thermo.constants\nimport {self.helper}\nfrom {self.helper} import h2\n\nC1 = 1.25\ny = 0.75  # shadowed by the argument y wherever a function has one\n\n\ndef h1(a):\n    return a * 3.0 + 1.0\n\n\n'
        src = [head]
        meta: list[dict] = []
        fns: list[tuple[str, int]] = [(f"{self.helper}.h1", 1), ("h2", 2), (f"{self.helper}.h3", 2), ("h1", 1)]
        # helpers whose trailing parameters have defaults, called with all, some and none of them left out
        fns += [(f"{self.helper}.h4", k) for k in (1, 2, 3, 4)] + [(f"{self.helper}.h5", k) for k in (0, 1, 2)]
        # leaf helpers in the same module first, so later functions can call them
        for i in range(nfun):
            npar = rng.randint(1, 3)
            name = f"f{i}"
            text, feats = self.function(name, npar, fns if i > 0 else fns[:])
            src.append(text + "\n\n")
            meta.append({"name": name, "nparams": npar, "features": sorted(feats), "source": text})
            if not any(f.startswith("outside") for f in feats):
                fns.append((name, npar))
        if sweep_slice is not None:
            # this module's share of the systematic sweep: every function of math / numpy on constants of either sign
            i, n = sweep_slice
            for j, call in enumerate(module_sweep_calls()):
                if j % n != i % n:
                    continue
                name = f"g{j}"
                text = f"def {name}(x, y):\n    return {call} * x + 0.25 * y\n"
                src.append(text + "\n\n")
                meta.append({"name": name, "nparams": 2, "features": ["function_drawn_from_the_module_itself", "shape:module_sweep", "module_sweep:" + call.split("(")[0]], "source": text})
        return "".join(src), meta


def block_features(src: str) -> set[str]:
    """Structural facets of a generated function that the evidence should show."""
    import ast

    out: set[str] = set()
    fn = ast.parse(src).body[0]

    def falls_through(stmts: list) -> bool:
        last = stmts[-1]
        if isinstance(last, ast.Return):
            return False
        if isinstance(last, ast.If):
            return falls_through(last.body) or not last.orelse or falls_through(last.orelse)
        return True

    def reads(node: ast.AST) -> set[str]:
        return {n.id for n in ast.walk(node) if isinstance(n, ast.Name) and isinstance(n.ctx, ast.Load)}

    def visit(stmts: list, depth: int) -> None:
        for i, st in enumerate(stmts):
            if not isinstance(st, ast.If):
                continue
            out.add(f"if_depth:{min(depth + 1, 3)}")
            rest = stmts[i + 1:]
            non_idem = any(isinstance(r, ast.Assign) and any(isinstance(t, ast.Name) and t.id in reads(r.value) for t in r.targets) for r in rest)
            for br in (st.body, st.orelse):
                if not br:
                    continue
                has_assign = any(isinstance(n, ast.Assign) for b in br for n in ast.walk(b))
                if falls_through(br) and non_idem:
                    out.add("branch_falls_through_into_self_referential_reassignment")
                    if not has_assign:
                        out.add("guard_only_branch_falls_through_into_self_referential_reassignment")
                if has_assign and falls_through(br):
                    out.add("branch_assigns_and_falls_through")
                visit(br, depth + 1)
            if not st.orelse and rest:
                out.add("if_without_else_followed_by_statements")

    visit(fn.body, 0)
    return out


_MODULE_FUNCTIONS: list[tuple[str, str, int]] = []


def _module_functions() -> list[tuple[str, str, int]]:
    """(module alias, function, number of arguments) for the float functions of math and the ufuncs of numpy."""
    if not _MODULE_FUNCTIONS:
        import math

        import numpy as np

        two = {"atan2", "copysign", "fmod", "hypot", "remainder", "pow", "log", "dist", "ldexp", "nextafter", "gcd", "lcm", "comb", "perm", "isclose"}
        skip = {"fsum", "prod", "frexp", "modf", "isfinite", "isinf", "isnan", "isclose", "dist", "ldexp", "sumprod", "fma", "nextafter", "ulp"}
        for n in sorted(dir(math)):
            if n.startswith("_") or not callable(getattr(math, n)) or n in skip:
                continue
            _MODULE_FUNCTIONS.append(("math", n, 2 if n in two else 1))
        for n in sorted(dir(np)):
            f = getattr(np, n)
            if isinstance(f, np.ufunc) and f.nout == 1 and f.nin in (1, 2) and not n.startswith(("bitwise", "logical", "is", "left_", "right_", "invert", "signbit", "matmul", "vecdot", "vecmat", "matvec", "frexp", "modf", "divmod", "spacing", "nextafter", "ldexp", "gcd", "lcm")):
                _MODULE_FUNCTIONS.append(("np", n, f.nin))
    return _MODULE_FUNCTIONS


def module_sweep_calls() -> list[str]:
    out = []
    for mod, fn_, nin in _module_functions():
        args = ["-1.5", "0.5", "2.5"] if nin == 1 else ["-5.5, 2.0", "5.5, -2.0", "2.5, 1.5", "-1.5, -0.5"]
        out += [f"{mod}.{fn_}({a})" for a in args]
    return out
