"""Generator of surrogate-free models whose functions are all in the translatable
Python subset (mon.fnlib.trans) — shared by the code-generation checks."""

from __future__ import annotations

from mon import refmodel as rm
from mon.fnlib import basic as fl
from mon.fnlib import trans as tr
from mon.fnlib import trans_b as tb

# (function, argument kinds): p = parameter, v = variable, t = time, a = any value (variable or derived)
RATE_TABLE = [
    (tr.t_const, "p"), (tr.t_ma1, "pa"), (tr.t_ma2, "pav"), (tr.t_mm, "vpp"), (tr.t_rev, "vvpp"), (tr.t_inh, "vap"),
    (tr.t_hill, "vpn"), (tr.t_cond, "vp"), (tr.t_chain, "vp"), (tr.t_elif, "vp"), (tr.t_nested, "vp"), (tr.t_local, "vp"), (tr.t_time, "pt"), (tr.t_cap, "vp"),
    (tr.t_nestif, "vap"), (tr.t_guarded, "vap"), (tr.t_share, "vap"), (tr.t_eqgate, "vap"), (tr.t_window, "vpp"),
    (tr.t_postcall, "vap"), (tr.t_swap, "vap"), (tr.t_localimp, "pa"),
]


def gen(rng, *, ia: bool = True, time: bool = True, conditionals: bool = True, computed_dynamic: bool = True,  # noqa: ANN001
        untouched: bool = True, max_vars: int = 5, untranslatable: bool = False, module_state: float = 0.0, magnitudes: float = 0.0, equality_gates: bool = True, trace_coefficient: float = 0.0) -> dict:
    L = fl.ref
    nvar = rng.randint(1, max_vars)
    variables = [f"x{i}" for i in range(nvar)]
    comps: list[dict] = []
    params = [f"k{i}" for i in range(rng.randint(2, 6))]
    feats0 = set()
    if rng.random() < 0.5:
        # model names equal to the rate laws' own parameter names, used at other positions (s, p, a, b, i / k, vmax, km, kf, kr)
        variables = rng.sample(["s", "a", "b", "i", "p"], nvar)
        params = rng.sample(["k", "vmax", "km", "kf", "kr", "x"], len(params))
        feats0.add("names_overlap_function_parameters")
    for p in params:
        comps.append({"kind": "parameter", "name": p, "value": round(rng.uniform(0.3, 2.0), 3)})
    comps.append({"kind": "parameter", "name": "nh", "value": rng.choice([1.0, 2.0])})
    for v in variables:
        comps.append({"kind": "variable", "name": v, "value": round(rng.uniform(0.3, 2.5), 3)})
    feats = set(feats0)
    derived: list[str] = []
    if ia and rng.random() < 0.4:
        comps.append({"kind": "parameter", "name": "kia", "ia": {"fn": L(tr.t_add), "args": [rng.choice(params), rng.choice(variables)]}})
        params.append("kia")
        feats.add("ia_parameter")
    if rng.random() < 0.7:
        comps.append({"kind": "derived", "name": "d0", "fn": L(tr.t_add), "args": [rng.choice(variables), rng.choice(params)]})
        derived.append("d0")
        if rng.random() < 0.6:
            comps.append({"kind": "derived", "name": "d1", "fn": L(tr.t_mul), "args": ["d0", rng.choice(params)]})
            derived.append("d1")
            feats.add("derived_chain")
    if rng.random() < 0.4:
        comps.append({"kind": "derived", "name": "dpar", "fn": L(tr.t_mul), "args": [rng.choice(params), rng.choice(params)]})
        feats.add("derived_parameter")
    if conditionals and rng.random() < 0.3:
        comps.append({"kind": "derived", "name": "dpw", "fn": L(tr.t_pw), "args": [rng.choice(variables)]})
        derived.append("dpw")
    touched = set()
    nrx = rng.randint(1, 4)
    table = [r for r in RATE_TABLE if (time or "t" not in r[1]) and (conditionals or r[0] not in (tr.t_cond, tr.t_chain, tr.t_elif, tr.t_cap, tr.t_nestif, tr.t_guarded, tr.t_eqgate, tr.t_window, tr.t_postcall))]
    if not equality_gates:
        # (a rate law that tests quantities for equality has, exactly where the equality holds, a derivative that is not the
        # derivative of the branch taken there; callers that compare Jacobians leave it out)
        table = [r for r in table if r[0] is not tr.t_eqgate]
    for j in range(nrx):
        fn, kinds = rng.choice(table)
        if equality_gates and conditionals and j == 0 and rng.random() < 0.12:
            fn, kinds = tr.t_eqgate, "vap"
        if untranslatable and j == 0:
            fn, kinds = rng.choice(tr.UNTRANSLATABLE), "vp"
            feats.add("untranslatable")
        args = []
        for kd in kinds:
            if kd == "p":
                args.append(rng.choice(params if "dpar" not in [c["name"] for c in comps] or rng.random() < 0.7 else ["dpar"]))
            elif kd == "n":
                args.append("nh")
            elif kd == "v":
                args.append(rng.choice(variables))
            elif kd == "t":
                args.append("time")
                feats.add("time")
            else:
                args.append(rng.choice(variables + derived))
        if fn is tr.t_eqgate:
            feats.add("equality_gate")
        if fn in (tr.t_cond, tr.t_chain, tr.t_elif, tr.t_cap, tr.t_nestif, tr.t_guarded, tr.t_eqgate, tr.t_window, tr.t_postcall):
            feats.add("conditional")
        pool = variables if not untouched or nvar == 1 else variables[: max(1, nvar - rng.randint(0, 1))]
        tv = rng.sample(pool, rng.randint(1, min(2, len(pool))))
        st = {}
        for v in tv:
            r = rng.random()
            if r < 0.45:
                st[v] = rng.choice([-1, 1, 2, -2, 1.0, -1.0])
                if isinstance(st[v], int) and abs(st[v]) == 2:
                    feats.add("integer_coefficient")
            elif r < 0.6:
                st[v] = rng.choice([0.5, -1.5, 2.5])
                feats.add("fractional_coefficient")
            elif r < 0.72:
                st[v] = rng.choice(params)
                feats.add("named_coefficient")
            elif r < 0.87 or not computed_dynamic:
                st[v] = {"fn": L(rng.choice([tr.t_half, tr.t_neg])), "args": [rng.choice(params)]}
                feats.add("computed_coefficient")
            else:
                st[v] = {"fn": L(tr.t_inv1), "args": [rng.choice(variables)]}
                feats.add("state_dependent_coefficient")
            touched.add(v)
        comps.append({"kind": "reaction", "name": f"v{j}", "fn": L(fn), "args": args, "stoich": st})
    if module_state and not untranslatable and rng.random() < module_state:
        # rate laws that read a module-level constant / a class attribute of their module (see module_state_rebound)
        a = rng.choice(variables)
        comps.append({"kind": "reaction", "name": "vms", "fn": L(tb.t_modconst), "args": [a, rng.choice(params)], "stoich": {a: -1.0}})
        comps.append({"kind": "derived", "name": "dma", "fn": L(tb.t_modattr), "args": [rng.choice(variables), rng.choice(params)]})
        if rng.random() < 0.6:
            comps.append({"kind": "derived", "name": "dcn", "fn": L(tb.t_constnames), "args": [rng.choice(variables), rng.choice(params)]})
            feats.add("attributes_named_like_mathematical_constants")
        touched.add(a)
        feats.add("module_state")
    if not untranslatable and rng.random() < 0.25:
        # a constant read through a module alias that the function binds itself, although its module binds the same alias
        # to another module (whose constant of that name has another value): the local binding is what counts
        comps.append({"kind": "derived", "name": "dlc", "fn": L(tb.t_localcfg), "args": [rng.choice(variables), rng.choice(params)]})
        comps.append({"kind": "derived", "name": "dmc", "fn": L(tb.t_modulecfg), "args": [rng.choice(variables), rng.choice(params)]})
        feats.add("function_local_module_alias_shadows_a_module_level_one")
    if not untranslatable and rng.random() < 0.2:
        # two different functions that share module, name and qualified name (defined under the two branches of a factory)
        a, b = rng.choice(variables), rng.choice(variables)
        comps.append({"kind": "reaction", "name": "vq1", "fn": "mon.fnlib.trans_b:RATE_LINEAR", "args": [a, rng.choice(params)], "stoich": {a: -1.0}})
        comps.append({"kind": "reaction", "name": "vq2", "fn": "mon.fnlib.trans_b:RATE_SATURATING", "args": [b, rng.choice(params)], "stoich": {b: -1.0}})
        touched |= {a, b}
        feats.add("functions_sharing_a_qualified_name")
    if len(touched) < nvar:
        feats.add("untouched_variable")
    if nvar == 1:
        feats.add("single_variable")
    state_scale = 1.0
    if magnitudes and rng.random() < magnitudes:
        # a model in other units: parameter values and concentrations spread over many orders of magnitude
        for c in comps:
            if c["kind"] == "parameter" and "value" in c and c["name"] != "nh" and rng.random() < 0.5:
                c["value"] = c["value"] * rng.choice([1e-13, 3.7e-7, 4.5678912e-7, 1e-4, 1e3, 1e6])
        state_scale = rng.choice([1e-6, 1.0, 1e3, 1e6])
        for c in comps:
            if c["kind"] == "variable" and "value" in c:
                c["value"] = c["value"] * state_scale
        feats.add("values_over_many_orders_of_magnitude")
        rx_ = [c for c in comps if c["kind"] == "reaction" and c["name"].startswith("v") and c["name"][1:].isdigit()]
        if rx_ and rng.random() < 0.6:
            # a by-product counted in other units: a plain coefficient far below one (it is a coefficient all the same)
            comps.append({"kind": "variable", "name": "xtr", "value": 0.5 * state_scale})
            rng.choice(rx_)["stoich"]["xtr"] = rng.choice([2.5e-10, 1.0 / 6.022e23, -4e-12])
            feats.add("coefficient_far_below_one")
    if trace_coefficient and "coefficient_far_below_one" not in feats and rng.random() < trace_coefficient:
        rx_ = [c for c in comps if c["kind"] == "reaction" and c["name"].startswith("v") and c["name"][1:].isdigit()]
        if rx_:
            comps.append({"kind": "variable", "name": "xtr", "value": 0.5})
            rng.choice(rx_)["stoich"]["xtr"] = rng.choice([2.5e-10, 1.0 / 6.022e23, -4e-12, 2.718281828e-7])
            feats.add("coefficient_far_below_one")
    spec = {"components": comps}
    spec = rm.shuffled(spec, rng)
    # was a dependent derived declared before what it uses?
    order = [c["name"] for c in spec["components"]]
    if "d1" in order and order.index("d1") < order.index("d0"):
        feats.add("dependent_declared_first")
    return {"spec": spec, "features": sorted(feats), "state_scale": state_scale}


import contextlib


@contextlib.contextmanager
def module_state_rebound(rng, first_use):  # noqa: ANN001, ANN201
    """The functions of a 'module_state' model read tb.KSAT and tb.Settings.gain. `first_use()` translates the model once
    (errors ignored); then the two values are re-bound, as when a script cell is re-run; inside the block the caller
    translates again and compares with the model, which follows the new values at once. Restored on exit."""
    try:
        with contextlib.suppress(Exception):
            first_use()
        tb.KSAT, tb.Settings.gain = round(rng.uniform(0.5, 3.0), 3), round(rng.uniform(0.5, 3.0), 3)
        yield
    finally:
        tb.KSAT, tb.Settings.gain = 1.75, 2.0
