"""Worker: run one shard of cases for one property, one JSON line per case."""

from __future__ import annotations

import importlib
import json
import logging
import signal
import sys
import traceback
import warnings

from mon import core


class CaseTimeout(Exception):
    pass


def _alarm(_sig, _frm):  # noqa: ANN001
    raise CaseTimeout


def main() -> int:
    prop, shard_path, out_path = sys.argv[1:4]
    warnings.filterwarnings("ignore")
    logging.disable(logging.CRITICAL)
    mod = importlib.import_module(core.REGISTRY[prop])
    with open(shard_path) as fh:
        cases = json.load(fh)
    if hasattr(mod, "worker_init"):
        mod.worker_init()
    case_timeout = int(getattr(mod, "CASE_TIMEOUT", 300))
    signal.signal(signal.SIGALRM, _alarm)
    with open(out_path, "w") as out:
        for case in cases:
            rec: dict
            try:
                signal.alarm(case_timeout)
                res = mod.run_case(case)
                if res.get("violations") and getattr(mod, "RERUN_ON_VIOLATION", True):
                    res2 = mod.run_case(case)
                    k1 = sorted((v["what"], str(v.get("mechanism"))) for v in res["violations"])
                    k2 = sorted((v["what"], str(v.get("mechanism"))) for v in res2["violations"])
                    if k1 != k2:
                        res["flaky"] = {"first": k1, "second": k2}
                signal.alarm(0)
                rec = res
            except CaseTimeout:
                rec = {"harness_error": f"case watchdog {case_timeout}s", "violations": []}
            except Exception:  # noqa: BLE001
                signal.alarm(0)
                rec = {"harness_error": traceback.format_exc(), "violations": []}
            rec["idx"] = case.get("idx")
            rec["case"] = case
            out.write(json.dumps(rec, default=str) + "\n")
            out.flush()
    return 0


if __name__ == "__main__":
    sys.exit(main())
