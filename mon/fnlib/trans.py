"""Translatable rate laws / derived functions (the Python subset fn_to_sympy supports) and a few
that are deliberately outside it.  Total on the sampled (positive) domain."""

from __future__ import annotations

import math

# module-level floats that share their names with arguments of the functions below (as in a script that keeps default
# values next to its rate laws): inside a function the argument is what counts
km = 0.5
kf = 1.25
n = 3.0
i = 0.75


def t_const(k: float) -> float:
    return k


def t_ma1(k: float, s: float) -> float:
    return k * s


def t_ma2(k: float, a: float, b: float) -> float:
    return k * a * b


def t_mm(s: float, vmax: float, km: float) -> float:
    return vmax * s / (km + s)


def t_rev(a: float, b: float, kf: float, kr: float) -> float:
    return kf * a - kr * b


def t_inh(s: float, i: float, k: float) -> float:
    return k * s / (1.0 + i * i)


def t_hill(s: float, k: float, n: float) -> float:
    return k * s**n / (1.0 + s**n)


def t_cond(s: float, k: float) -> float:
    return k * s if s > 1.0 else k * s * s


def t_chain(s: float, k: float) -> float:
    if 0.5 < s <= 2.0:
        return k
    return k * s


def t_elif(s: float, k: float) -> float:
    if s < 0.5:
        r = 2.0 * k
    elif s < 1.5:
        r = k + s
    else:
        r = k * s
    return r + 0.25


def t_nested(s: float, k: float) -> float:
    return t_ma1(k, s) + 0.5 * t_const(k)


def t_nestif(s: float, e: float, k: float) -> float:
    """an if nested in an if-body, the two conditions on different quantities, with fall-through of the inner one"""
    if s > 1.0:
        if e > 1.5:
            return k * s
        return k * s * e
    return 0.1 * k * s


def t_guarded(s: float, e: float, k: float) -> float:
    v = k * s
    if s > 1.25:
        v = v * e
    if e > 1.0:
        return v + 0.5
    return v


def t_frac(a: float, b: float) -> float:
    return a / (a + b)


def t_share(b: float, c: float, k: float) -> float:
    """nested call whose first argument is a compound expression over a name (b) that is also the callee's second parameter"""
    return k * t_frac(b * 1.0, c) + 0.25 * t_frac(c + b, b * 2.0)


def t_eqgate(s: float, e: float, k: float) -> float:
    """equality and inequality tests between model quantities: they hold on some states (the checks evaluate on a lattice)"""
    if s == e:
        return 0.0
    return k * (s - e) if s != 1.0 else k


def t_window(s: float, lo: float, hi: float) -> float:
    """a comparison chain of four operands with mixed strictness"""
    if 0.125 <= lo < s <= hi + lo:
        return hi * s
    return (lo if s > hi >= lo < 5.0 else 0.25 * s)


def t_postcall(s: float, e: float, k: float) -> float:
    # a local bound differently on the two paths, used after the if as the argument of a call to another function
    if e > 1.0:
        kapp = k * (1.0 + e)
    else:
        kapp = k
    return t_mm(s, 2.0, kapp) + 0.25 * t_ma1(kapp, e)


def t_swap(a: float, b: float, k: float) -> float:
    # tuple assignments whose right-hand sides use the names being assigned
    lo, hi = a, b + 1.0
    lo, hi = hi, lo + hi
    return k * lo / (1.0 + hi)


def t_localimp(k: float, s: float) -> float:
    # the import inside the function binds t_ma1 to trans_b's k / (1 + s); this module's own t_ma1 is k * s
    from mon.fnlib.trans_b import t_ma1

    return t_ma1(k, s) + 0.5 * k


def t_local(s: float, k: float) -> float:
    a = s * s
    b = a + k
    return b / (1.0 + a)


def t_cap(s: float, k: float) -> float:
    v = k * s
    if s > 1.5:
        v = 1.5 * k
    return v


def t_net(s: float, p: float) -> float:
    return 2.0 * s - p


def t_un(a: float, b: float) -> float:
    return a * 2.0 + 0.0 * b


def t_time(k: float, t: float) -> float:
    return k * (1.0 + 0.1 * t)


# derived quantities
def t_add(a: float, b: float) -> float:
    return a + b


def t_mul(a: float, b: float) -> float:
    return a * b


def t_div(a: float, b: float) -> float:
    return a / (1.0 + b * b)


def t_pw(a: float) -> float:
    return a * 2.0 if a < 1.0 else a + 1.0


# coefficients
def t_half(k: float) -> float:
    return 0.5 * k


def t_neg(k: float) -> float:
    return -k


def t_inv1(x: float) -> float:
    return 1.0 / (1.0 + x)


# outside the subset: generation must raise
def u_loop(s: float, k: float) -> float:
    acc = 0.0
    for _ in range(2):
        acc = acc + k * s
    return acc


def u_andor(s: float, k: float) -> float:
    if s > 0.5 and k > 0.1:
        return k * s
    return k


def u_aug(s: float, k: float) -> float:
    r = k * s
    r += 1.0
    return r


def u_exp(s: float, k: float) -> float:
    return k * math.exp(-s)


RATES = {1: [t_const], 2: [t_ma1, t_cond, t_chain, t_elif, t_nested, t_local, t_time, t_cap, t_localimp], 3: [t_ma2, t_mm, t_inh, t_hill, t_nestif, t_guarded, t_share, t_eqgate, t_window, t_postcall, t_swap], 4: [t_rev]}
UNTRANSLATABLE = [u_loop, u_andor, u_aug, u_exp]
