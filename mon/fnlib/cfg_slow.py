"""constants of one configuration (see trans_b.t_localcfg)"""
K = 2.0
