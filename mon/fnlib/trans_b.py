"""Second module: functions that share their __name__ with mon.fnlib.trans but compute something else,
and names that collide with the prefixes the MxlPy source generator invents."""

from __future__ import annotations

import mon.fnlib.cfg_slow as cfg  # (t_localcfg binds the same name to another module inside its body)


def t_ma1(k: float, s: float) -> float:
    return k / (1.0 + s)


def t_add(a: float, b: float) -> float:
    return a + 2.0 * b


def t_half(k: float) -> float:
    return 0.25 * k


def init_t_add(a: float, b: float) -> float:
    return a * b + 1.0


def v0_stoich_t_half(a: float) -> float:
    return a + 3.0


def t_sqrt(k: float, s: float) -> float:
    return k * s**0.5


def t_net(p: float, s: float) -> float:
    """mirror image of trans.t_net: same expression when wired to the same model names in reverse order"""
    return 2.0 * s - p


def t_un(a: float) -> float:
    return a * 2.0


# ---- functions that read module state (the value is part of the function's meaning at the time it is translated) ----
KSAT = 1.75


class Settings:
    gain = 2.0


def t_modconst(s: float, k: float) -> float:
    return k * s / (KSAT + s)


def t_localcfg(s: float, k: float) -> float:
    import mon.fnlib.cfg_fast as cfg

    return cfg.K * k * s


def t_modulecfg(s: float, k: float) -> float:
    return cfg.K * k + s


def t_modattr(s: float, k: float) -> float:
    return Settings.gain * k * s


class Membrane:
    """attributes of the user's own that happen to be called like mathematical constants"""

    tau = 8.0
    e = 0.25
    pi = 3.0


def t_constnames(s: float, k: float) -> float:
    return k * s / Membrane.tau + Membrane.e * s + Membrane.pi


# ---- two different functions with the same module, name and qualified name (defined under a branch of a factory) ----
def make_rate(variant: str):  # noqa: ANN201
    if variant == "linear":

        def rate(s: float, k: float) -> float:
            return k * s

    else:

        def rate(s: float, k: float) -> float:
            return k * s / (1.0 + s)

    return rate


RATE_LINEAR = make_rate("linear")
RATE_SATURATING = make_rate("saturating")
