"""constants of another configuration (see trans_b.t_localcfg)"""
K = 5.0
