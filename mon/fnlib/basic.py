"""Rate-law / derived functions used by generated models.

All total and smooth on the reals (denominators are 1 + squares), non-constant
and non-symmetric in their arguments so that a swapped / stale / missing
argument changes the number. Real module-level functions: inspect.getsource,
pickling and fn_to_sympy all need that.
"""

from __future__ import annotations


def c0() -> float:
    return 1.25


def c0b() -> float:
    return 0.75


def gauss_tail(x: float, k: float) -> float:
    """A window far away from where the state lives: the exponential underflows, silently, to exactly 0.0."""
    import numpy as np

    return k * float(np.exp(-((x + 30.0) ** 2)))


def lin1(a: float) -> float:
    return 0.7 * a + 0.3


def sq1(a: float) -> float:
    return 0.5 * a * a + 0.1


def sat1(a: float) -> float:
    return 2.0 * a / (1.0 + a * a) + 0.5


def neg1(a: float) -> float:
    return 1.0 - 0.4 * a


def zero1(a: float) -> float:
    return a - a


def add2(a: float, b: float) -> float:
    return a + 0.5 * b


def sub2(a: float, b: float) -> float:
    return a - 0.25 * b


def mul2(a: float, b: float) -> float:
    return a * b + 0.1 * a


def div2(a: float, b: float) -> float:
    return a / (1.0 + b * b)


def mm2(s: float, k: float) -> float:
    return 1.5 * s / (1.0 + k * k + s * s) + 0.2 * k


def f3(a: float, b: float, c: float) -> float:
    return a * b - 0.3 * c + 0.05 * a


def g3(a: float, b: float, c: float) -> float:
    return (a + 2.0 * b) / (1.0 + c * c)


def f4(a: float, b: float, c: float, d: float) -> float:
    return a * b - c * d + 0.1 * a - 0.2 * d


def g4(a: float, b: float, c: float, d: float) -> float:
    return (a - b) / (1.0 + c * c) + 0.3 * d


def dsum2(a: float, d) -> float:  # noqa: ANN001
    """Derived on a data series."""
    return a + 0.1 * float(d.sum())


# surrogate functions: return tuples
def s1_2(a: float) -> tuple[float, float]:
    return 0.5 * a + 0.1, 1.0 - 0.2 * a


def s2_2(a: float, b: float) -> tuple[float, float]:
    return a * b + 0.2, a - 0.3 * b


def s2_3(a: float, b: float) -> tuple[float, float, float]:
    return a + b, a - 0.5 * b, 0.1 * a * b + 0.4


def s1_1(a: float) -> tuple[float]:
    return (0.3 * a + 0.2,)


def s2_1(a: float, b: float) -> tuple[float]:
    return (a / (1.0 + b * b) + 0.1,)


BY_ARITY = {
    0: [c0, c0b],
    1: [lin1, sq1, sat1, neg1],
    2: [add2, sub2, mul2, div2, mm2],
    3: [f3, g3],
    4: [f4, g4],
}
SURROGATE = {
    (1, 1): [s1_1],
    (2, 1): [s2_1],
    (1, 2): [s1_2],
    (2, 2): [s2_2],
    (2, 3): [s2_3],
}


def ref(fn) -> str:  # noqa: ANN001
    return f"{fn.__module__}:{fn.__name__}"


def resolve(ref_: str):  # noqa: ANN201
    import importlib

    mod, name = ref_.split(":")
    return getattr(importlib.import_module(mod), name)


# weighted sums, arities 0..6 (dependency-graph workloads)
def w0() -> float:
    return 0.3


def w1(a: float) -> float:
    return 0.3 + 0.17 * a


def w2(a: float, b: float) -> float:
    return 0.3 + 0.17 * a + 0.34 * b + 0.05 * a * b


def w3(a: float, b: float, c: float) -> float:
    return 0.3 + 0.17 * a + 0.34 * b + 0.51 * c + 0.05 * a * c


def w4(a: float, b: float, c: float, d: float) -> float:
    return 0.3 + 0.17 * a + 0.34 * b + 0.51 * c + 0.68 * d + 0.05 * a * d


def w5(a: float, b: float, c: float, d: float, e: float) -> float:
    return 0.3 + 0.17 * a + 0.34 * b + 0.51 * c + 0.68 * d + 0.85 * e + 0.05 * a * e


def w6(a: float, b: float, c: float, d: float, e: float, f: float) -> float:
    return 0.3 + 0.17 * a + 0.34 * b + 0.51 * c + 0.68 * d + 0.85 * e + 1.02 * f + 0.05 * a * f


def wn(*args: float) -> float:
    """any arity (used where a component names many things)"""
    return 0.3 + 0.05 * float(sum(args))


W = [w0, w1, w2, w3, w4, w5, w6]


def sw1_2(a: float) -> tuple[float, float]:
    return 0.1 + 0.2 * a, 0.4 - 0.1 * a


def sw2_2(a: float, b: float) -> tuple[float, float]:
    return 0.1 + 0.2 * a + 0.3 * b, 0.4 - 0.1 * a * b


def sw3_2(a: float, b: float, c: float) -> tuple[float, float]:
    return 0.1 + 0.2 * a + 0.3 * b - 0.1 * c, 0.4 - 0.1 * a * c + 0.05 * b


def sw0_2() -> tuple[float, float]:
    return 0.6, 0.9


SW = [sw0_2, sw1_2, sw2_2, sw3_2]


# linear-network rate laws (simulator family); single-expression, translatable
def lin_const(k: float) -> float:
    return k


def lin_ma(k: float, s: float) -> float:
    return k * s


def neg_sq1(a: float) -> float:
    """always negative coefficient"""
    return -(0.5 * a * a + 0.1)


# mass-action laws for label networks
def ma0(k: float) -> float:
    return k


def ma1(k: float, s: float) -> float:
    return k * s


def ma2(k: float, s1: float, s2: float) -> float:
    return k * s1 * s2


def ma3(k: float, s1: float, s2: float, s3: float) -> float:
    return k * s1 * s2 * s3


def ma1mod(k: float, s: float, m: float) -> float:
    return k * s * m / (1.0 + m)


def tot2(a: float, b: float) -> float:
    return a + 2.0 * b


def zdiv(a: float, b: float) -> float:
    """Raises ZeroDivisionError for b == 0 (the failure path scan workers handle)."""
    return float(a) / float(b)


def zdiv_late(a: float, b: float, t: float) -> float:
    """Fine at t=0, raises ZeroDivisionError during the integration when b == 0."""
    return 0.0 if t <= 0.05 else float(a) / float(b)


# power-law rate laws (control analysis); kinetic orders are parameters
def pl0(k: float) -> float:
    return k


def pl1(k: float, x: float, n: float) -> float:
    return k * x**n


def pl1t(k: float, x: float, n: float, t: float) -> float:
    """power law with an activity that drifts in time (the kinetic order in x stays n)"""
    return k * x**n * (1.0 + 0.5 * t)


def pl2(k: float, x: float, nx: float, y: float, ny: float) -> float:
    return k * x**nx * y**ny
