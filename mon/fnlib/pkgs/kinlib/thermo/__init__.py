"""sub-package"""
