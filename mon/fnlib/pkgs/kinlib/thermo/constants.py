"""inner constants (same module name, same attribute names, other values)"""
R = 8.25
T0 = 0.75
