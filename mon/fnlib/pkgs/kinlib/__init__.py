"""package used by the C06 workload: two modules called `constants` at different depths"""
