"""outer constants"""
R = 0.0625
T0 = 2.5
