"""Driver: shard cases over worker subprocesses, aggregate, decide, write evidence.

Exit codes: 0 held on everything observed (known findings listed), 1 violation
(prints ``VIOLATION property=<id> replay=<path>``), 2 inconclusive.
"""

from __future__ import annotations

import argparse
import importlib
import json
import os
import shutil
import subprocess
import sys
import tempfile
import time
from collections import Counter
from pathlib import Path

from mon import core

MAX_REPLAYS = 12
# validation tools (tools/try_seed.py, tools/mutation_sweep.py) run the checks against a deliberately broken tree; they set
# VERIF_OUT so that the evidence and replays of those runs never replace the ones of the unchanged tree
OUT_ROOT = Path(os.environ["VERIF_OUT"]) if os.environ.get("VERIF_OUT") else core.ROOT


def _parse(argv: list[str]) -> argparse.Namespace:
    ap = argparse.ArgumentParser()
    ap.add_argument("prop")
    ap.add_argument("--tier", default=os.environ.get("VERIF_TIER") or "quick")
    ap.add_argument("--seed", type=int, default=None)
    ap.add_argument("--replay", default=None)
    ap.add_argument("--workers", type=int, default=None)
    ap.add_argument("--scale", type=float, default=1.0, help="multiply case counts")
    ns = ap.parse_args(argv)
    if ns.seed is None:
        try:
            ns.seed = int(os.environ.get("VERIF_SEED", "0"))
        except ValueError:
            ns.seed = 0
    if ns.tier not in ("quick", "thorough"):
        ns.tier = "quick"
    return ns


def _replay(mod, prop: str, path: str) -> int:
    data = json.loads(Path(path).read_text())
    case = data["case"]
    if hasattr(mod, "worker_init"):
        mod.worker_init()
    res = mod.run_case(case)
    known = {e["id"] for e in core.load_known(prop) if e.get("status") == "open"}
    bad = [v for v in res["violations"] if v.get("mechanism") not in known]
    print(json.dumps(res, indent=1, default=str)[:20000])
    if bad:
        print(f"VIOLATION property={prop} replay={path}")
        return 1
    print(f"replay: no unlisted violation for {prop}")
    return 0


def main(argv: list[str] | None = None) -> int:
    ns = _parse(sys.argv[1:] if argv is None else argv)
    prop = ns.prop.upper()
    if prop not in core.REGISTRY:
        print(f"unknown property {prop}")
        return 2
    mod = importlib.import_module(core.REGISTRY[prop])
    if ns.replay:
        return _replay(mod, prop, ns.replay)

    t0 = time.time()
    tier, seed = ns.tier, ns.seed
    os.environ["VERIF_SCALE"] = str(ns.scale)
    cases = mod.gen_cases(tier, seed)
    for i, c in enumerate(cases):
        c.setdefault("idx", i)
    nworkers = ns.workers or getattr(mod, "WORKERS", {}).get(tier, core.ncpu())
    nworkers = max(1, min(nworkers, len(cases)))
    timeout = getattr(mod, "TIMEOUT", {}).get(tier, 900 if tier == "quick" else 7200)

    work = Path(tempfile.mkdtemp(prefix=f"verif-{prop}-"))
    procs = []
    try:
        for w in range(nworkers):
            shard = cases[w::nworkers]
            sdir = work / f"w{w}"
            (sdir / "home").mkdir(parents=True)
            (sdir / "tmp").mkdir()
            (sdir / "shard.json").write_text(json.dumps(shard))
            env = dict(os.environ)
            env["HOME"] = str(sdir / "home")
            env["TMPDIR"] = str(sdir / "tmp")
            env["VERIF_WORKDIR"] = str(sdir)
            env["VERIF_TIER"] = tier
            env["VERIF_SEED"] = str(seed)
            env["PYTHONHASHSEED"] = str(seed % 4294967295)
            log = open(sdir / "log.txt", "w")  # noqa: SIM115
            p = subprocess.Popen(  # noqa: S603
                [sys.executable, "-m", "mon.worker", prop, str(sdir / "shard.json"), str(sdir / "out.jsonl")],
                env=env,
                stdout=log,
                stderr=subprocess.STDOUT,
                cwd=str(core.ROOT),
            )
            procs.append((w, p, sdir, log, len(shard)))

        results: list[dict] = []
        inconclusive: list[str] = []
        deadline = t0 + timeout
        for w, p, sdir, log, n in procs:
            try:
                rc = p.wait(timeout=max(1.0, deadline - time.time()))
            except subprocess.TimeoutExpired:
                p.kill()
                p.wait()
                rc = None
            log.close()
            out = sdir / "out.jsonl"
            got = []
            if out.exists():
                for line in out.read_text().splitlines():
                    try:
                        got.append(json.loads(line))
                    except json.JSONDecodeError:
                        pass
            results.extend(got)
            if rc is None:
                inconclusive.append(f"worker {w} watchdog after {timeout}s ({len(got)}/{n} cases)")
            elif rc != 0 or len(got) != n:
                tail = (sdir / "log.txt").read_text()[-1500:]
                inconclusive.append(f"worker {w} rc={rc} ({len(got)}/{n} cases): {tail}")
    finally:
        for _, p, *_ in procs:
            if p.poll() is None:
                p.kill()
        shutil.rmtree(work, ignore_errors=True)

    results.sort(key=lambda r: r.get("idx", 0))
    known_all = core.load_known(prop)
    known_open = {e["id"]: e for e in known_all if e.get("status") == "open"}

    counters: Counter = Counter()
    sigs_nontrivial = set()
    known_seen: Counter = Counter()
    new_viol: list[tuple[dict, dict]] = []
    samples = []
    for r in results:
        if r.get("harness_error"):
            inconclusive.append(f"case {r.get('idx')}: harness error: {r['harness_error'][-800:]}")
            continue
        if r.get("flaky"):
            inconclusive.append(f"case {r.get('idx')}: violation not reproduced on re-run (flaky harness)")
            continue
        for k, v in r.get("counters", {}).items():
            counters[k] += v
        if r.get("sigs") is not None:
            sigs_nontrivial.update(r["sigs"])
        elif r.get("nontrivial"):
            sigs_nontrivial.add(r["sig"])
        for v in r.get("violations", []):
            if v.get("mechanism") in known_open:
                known_seen[v["mechanism"]] += 1
            else:
                new_viol.append((r, v))
        if r.get("sample") is not None and len(samples) < 6:
            samples.append(r["sample"])

    extra: dict = {}
    if hasattr(mod, "finalize"):
        fin = mod.finalize(results, tier, counters) or {}
        inconclusive.extend(fin.pop("inconclusive", []))
        for v in fin.pop("violations", []):
            if v.get("mechanism") in known_open:
                known_seen[v["mechanism"]] += 1
            else:
                new_viol.append(({"case": {"kind": "finalize"}, "idx": -1}, v))
        extra = fin
    min_nt = getattr(mod, "MIN_NONTRIVIAL", {}).get(tier, 2)
    if ns.scale >= 1.0 and len(sigs_nontrivial) < min_nt and not new_viol:
        inconclusive.append(f"only {len(sigs_nontrivial)} distinct non-trivial cases (< {min_nt})")

    # ---- replay files ------------------------------------------------------
    replay_paths = []
    if new_viol:
        rdir = OUT_ROOT / "replays" / prop
        rdir.mkdir(parents=True, exist_ok=True)
        seen_keys = set()
        for r, v in new_viol:
            key = (v.get("mechanism"), v.get("what"))
            if key in seen_keys or len(replay_paths) >= MAX_REPLAYS:
                continue
            seen_keys.add(key)
            path = rdir / f"{prop}-{tier}-s{seed}-{core.sha([r.get('case'), v.get('what')])}.json"
            path.write_text(
                json.dumps(
                    {"property": prop, "tier": tier, "seed": seed, "case": r.get("case"), "violation": v,
                     "how": f"./check {prop} --replay {path}"},
                    indent=1, default=str,
                )
            )
            replay_paths.append(path)

    # ---- evidence ----------------------------------------------------------
    coverage = {
        "evaluations": len(results),
        "distinct_nontrivial": len(sigs_nontrivial),
        "rule": getattr(mod, "RULE", ""),
        "samples": samples or ["(no sample recorded)"],
        "monitor_counters": dict(sorted(counters.items())),
        "known_findings_reobserved": dict(known_seen),
        "new_violations": len(new_viol),
        "inconclusive": inconclusive[:10],
        "workers": nworkers,
    }
    coverage.update(extra)
    evidence = {
        "property_id": prop,
        "tier": tier,
        "seed": seed,
        "level": getattr(mod, "LEVEL", "exploration"),
        "coverage": core.jsonable(coverage),
        "assumptions": getattr(mod, "ASSUMPTIONS", []),
        "wall_s": round(time.time() - t0, 2),
        "violations": len(new_viol),
    }
    edir = OUT_ROOT / "evidence"
    edir.mkdir(parents=True, exist_ok=True)
    (edir / f"{prop}.json").write_text(json.dumps(evidence, indent=1, default=str) + "\n")

    # ---- report ------------------------------------------------------------
    print(
        f"{prop} tier={tier} seed={seed} cases={len(results)} nontrivial_distinct={len(sigs_nontrivial)} "
        f"wall={evidence['wall_s']}s"
    )
    shown = {k: v for k, v in sorted(counters.items())}
    print("observed:", json.dumps(shown)[:3000])
    for kid, e in known_open.items():
        print(f"KNOWN-FINDING: property={prop} {kid}: {e.get('mechanism', '')} [re-observed {known_seen.get(kid, 0)}x this run]")
    if new_viol:
        for r, v in new_viol[:10]:
            print("  violation:", v.get("what"), "| mechanism:", v.get("mechanism"), "|", json.dumps(v.get("detail"), default=str)[:600])
        for path in replay_paths:
            print(f"VIOLATION property={prop} replay={path}")
        return 1
    if inconclusive:
        for msg in inconclusive[:10]:
            print(f"INCONCLUSIVE property={prop} reason={msg}")
        return 2
    print(f"HELD property={prop} on what was observed")
    return 0


if __name__ == "__main__":
    sys.exit(main())
