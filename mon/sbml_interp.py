"""Independent reading of an SBML L3 document through libsbml's object model and
ASTNodes (numeric interpreter).  Shares nothing with pysbml / mxlpy's importer.

Semantics implemented (SBML L3 core):
* a species identifier in math is its concentration unless hasOnlySubstanceUnits;
* assignment rules hold at all times, initial assignments at t=0 (both resolved
  on demand by depth-first evaluation, cycle = error);
* function definitions are lambda-expanded at call time;
* d(amount)/dt = sum(+-stoichiometry * kinetic law); stoichiometry is the
  constant of the species reference or the value of a rule on its id;
  d(concentration)/dt = d(amount)/dt / size for constant compartments;
* boundary-condition and constant species do not change through reactions.
"""

from __future__ import annotations

import math
from typing import Any

import libsbml as L


class InterpError(Exception):
    pass


def eval_ast(node: Any, look, fdefs: dict, t: float) -> Any:  # noqa: ANN001
    ty = node.getType()
    ch = [node.getChild(i) for i in range(node.getNumChildren())]
    ev = lambda n: eval_ast(n, look, fdefs, t)  # noqa: E731
    if ty == L.AST_INTEGER:
        return float(node.getInteger())
    if ty in (L.AST_REAL, L.AST_REAL_E):
        return float(node.getReal())
    if ty == L.AST_RATIONAL:
        return node.getNumerator() / node.getDenominator()
    if ty == L.AST_NAME:
        return look(node.getName())
    if ty == L.AST_NAME_TIME:
        return t
    if ty == L.AST_CONSTANT_E:
        return math.e
    if ty == L.AST_CONSTANT_PI:
        return math.pi
    if ty == L.AST_CONSTANT_TRUE:
        return True
    if ty == L.AST_CONSTANT_FALSE:
        return False
    if ty == L.AST_PLUS:
        return sum(ev(c) for c in ch)
    if ty == L.AST_MINUS:
        return -ev(ch[0]) if len(ch) == 1 else ev(ch[0]) - ev(ch[1])
    if ty == L.AST_TIMES:
        r = 1.0
        for c in ch:
            r *= ev(c)
        return r
    if ty == L.AST_DIVIDE:
        return ev(ch[0]) / ev(ch[1])
    if ty in (L.AST_POWER, L.AST_FUNCTION_POWER):
        return ev(ch[0]) ** ev(ch[1])
    if ty == L.AST_FUNCTION_ROOT:
        if len(ch) == 1:
            return math.sqrt(ev(ch[0]))
        return ev(ch[1]) ** (1.0 / ev(ch[0]))
    if ty == L.AST_FUNCTION_EXP:
        return math.exp(ev(ch[0]))
    if ty == L.AST_FUNCTION_LN:
        return math.log(ev(ch[0]))
    if ty == L.AST_FUNCTION_LOG:
        if len(ch) == 1:
            return math.log10(ev(ch[0]))
        return math.log(ev(ch[1])) / math.log(ev(ch[0]))
    if ty == L.AST_FUNCTION_ABS:
        return abs(ev(ch[0]))
    if ty == L.AST_FUNCTION_FLOOR:
        return float(math.floor(ev(ch[0])))
    if ty == L.AST_FUNCTION_CEILING:
        return float(math.ceil(ev(ch[0])))
    simple = {L.AST_FUNCTION_SIN: math.sin, L.AST_FUNCTION_COS: math.cos, L.AST_FUNCTION_TAN: math.tan, L.AST_FUNCTION_TANH: math.tanh,
              L.AST_FUNCTION_SINH: math.sinh, L.AST_FUNCTION_COSH: math.cosh, L.AST_FUNCTION_ARCTAN: math.atan}
    if ty in simple:
        return simple[ty](ev(ch[0]))
    if ty == L.AST_FUNCTION_MAX:
        return max(ev(c) for c in ch)
    if ty == L.AST_FUNCTION_MIN:
        return min(ev(c) for c in ch)
    if ty == L.AST_FUNCTION_PIECEWISE:
        i = 0
        while i + 1 < len(ch):
            if ev(ch[i + 1]):
                return ev(ch[i])
            i += 2
        if i < len(ch):
            return ev(ch[i])
        raise InterpError("piecewise without matching piece")
    rel = {L.AST_RELATIONAL_EQ: lambda a, b: a == b, L.AST_RELATIONAL_NEQ: lambda a, b: a != b, L.AST_RELATIONAL_LT: lambda a, b: a < b,
           L.AST_RELATIONAL_LEQ: lambda a, b: a <= b, L.AST_RELATIONAL_GT: lambda a, b: a > b, L.AST_RELATIONAL_GEQ: lambda a, b: a >= b}
    if ty in rel:
        vals = [ev(c) for c in ch]
        return all(rel[ty](a, b) for a, b in zip(vals, vals[1:]))
    if ty == L.AST_LOGICAL_AND:
        return all(bool(ev(c)) for c in ch)
    if ty == L.AST_LOGICAL_OR:
        return any(bool(ev(c)) for c in ch)
    if ty == L.AST_LOGICAL_NOT:
        return not bool(ev(ch[0]))
    if ty == L.AST_LOGICAL_XOR:
        return sum(bool(ev(c)) for c in ch) % 2 == 1
    if ty == L.AST_FUNCTION:
        name = node.getName()
        fd = fdefs.get(name)
        if fd is None:
            raise InterpError(f"unknown function {name}")
        lam = fd.getMath()
        nargs = lam.getNumChildren() - 1
        if nargs != len(ch):
            raise InterpError(f"arity mismatch calling {name}")
        local = {lam.getChild(i).getName(): ev(ch[i]) for i in range(nargs)}

        def look2(n: str):  # noqa: ANN202
            if n in local:
                return local[n]
            raise InterpError(f"function definition {name} refers to outer name {n}")

        return eval_ast(lam.getChild(nargs), look2, fdefs, t)
    raise InterpError(f"AST node type {ty} not handled ({L.formulaToL3String(node)})")


class Doc:
    """One SBML document, evaluated at arbitrary species states."""

    def __init__(self, path: str) -> None:
        self.doc = L.readSBMLFromFile(path)
        self.m = self.doc.getModel()
        if self.m is None:
            raise InterpError("no model")
        m = self.m
        self.fdefs = {m.getFunctionDefinition(i).getId(): m.getFunctionDefinition(i) for i in range(m.getNumFunctionDefinitions())}
        self.compartments = {m.getCompartment(i).getId(): m.getCompartment(i) for i in range(m.getNumCompartments())}
        self.species = {m.getSpecies(i).getId(): m.getSpecies(i) for i in range(m.getNumSpecies())}
        self.parameters = {m.getParameter(i).getId(): m.getParameter(i) for i in range(m.getNumParameters())}
        self.rules = {}
        self.rate_rules: dict[str, Any] = {}  # quantities (parameters, species references) that follow d/dt = math
        for i in range(m.getNumRules()):
            r = m.getRule(i)
            if r.isAssignment():
                self.rules[r.getVariable()] = r.getMath()
            elif r.isRate():
                self.rate_rules[r.getVariable()] = r.getMath()
        self.ias = {m.getInitialAssignment(i).getSymbol(): m.getInitialAssignment(i).getMath() for i in range(m.getNumInitialAssignments())}
        self.reactions = [m.getReaction(i) for i in range(m.getNumReactions())]
        self.srefs: dict[str, float] = {}
        for r in self.reactions:
            for lst in (r.getListOfReactants(), r.getListOfProducts()):
                for j in range(lst.size()):
                    sr = lst.get(j)
                    if sr.isSetId():
                        self.srefs[sr.getId()] = sr.getStoichiometry() if sr.isSetStoichiometry() else 1.0

    # ---- values -----------------------------------------------------------
    def _declared(self, name: str) -> float:
        if name in self.compartments:
            return self.compartments[name].getSize()
        if name in self.parameters:
            return self.parameters[name].getValue()
        if name in self.species:
            s = self.species[name]
            size = self._size_of(s, initial=True)
            if s.isSetInitialConcentration():
                conc = s.getInitialConcentration()
                return conc * size if s.getHasOnlySubstanceUnits() else conc
            if s.isSetInitialAmount():
                amt = s.getInitialAmount()
                return amt if s.getHasOnlySubstanceUnits() else amt / size
            return float("nan")
        if name in self.srefs:
            return self.srefs[name]
        raise InterpError(f"unknown identifier {name}")

    def _size_of(self, s: Any, *, initial: bool) -> float:
        return self.value(s.getCompartment(), None, 0.0, initial=initial, _stack=frozenset())

    def value(self, name: str, state: dict | None, t: float, *, initial: bool, _stack: frozenset = frozenset()) -> float:
        """Value of an identifier as it appears in math. `state` maps species id -> value in math units."""
        if name in _stack:
            raise InterpError(f"cyclic definition through {name}")
        st = _stack | {name}
        look = lambda n: self.value(n, state, t, initial=initial, _stack=st)  # noqa: E731
        if name in self.rules:
            return float(eval_ast(self.rules[name], look, self.fdefs, t))
        if state is not None and name in state:
            return state[name]
        if initial and name in self.ias:
            return float(eval_ast(self.ias[name], look, self.fdefs, t))
        if not initial and name in self.ias and name not in self.species:
            # parameters / compartments / references fixed by an initial assignment keep their t=0 value
            return self.value(name, None, 0.0, initial=True)
        return self._declared(name)

    def initial_state(self) -> dict[str, float]:
        return {sid: self.value(sid, None, 0.0, initial=True) for sid in self.species}

    def rates(self, state: dict[str, float], t: float = 0.0, *, amounts: bool = False) -> dict[str, float]:
        """d/dt of every species in the units in which it appears in math (or as amounts)."""
        amount_rate = {sid: 0.0 for sid in self.species}
        for r in self.reactions:
            kl = r.getKineticLaw()
            if kl is None or kl.getMath() is None:
                continue
            local = {}
            for i in range(kl.getNumLocalParameters()):
                lp = kl.getLocalParameter(i)
                local[lp.getId()] = lp.getValue()

            def look(n: str, _local=local):  # noqa: ANN001, ANN202
                if n in _local:
                    return _local[n]
                return self.value(n, state, t, initial=False)

            v = float(eval_ast(kl.getMath(), look, self.fdefs, t))
            for lst, sign in ((r.getListOfReactants(), -1.0), (r.getListOfProducts(), 1.0)):
                for j in range(lst.size()):
                    sr = lst.get(j)
                    sp = self.species[sr.getSpecies()]
                    if sp.getBoundaryCondition() or sp.getConstant():
                        continue
                    if sr.isSetId() and (sr.getId() in self.rules or sr.getId() in self.ias or sr.getId() in self.rate_rules):
                        coef = self.value(sr.getId(), state, t, initial=False)
                    else:
                        coef = sr.getStoichiometry() if sr.isSetStoichiometry() else 1.0
                    amount_rate[sr.getSpecies()] += sign * coef * v
        if amounts:
            return {sid: v for sid, v in amount_rate.items() if sid not in self.rules}
        out = {}
        for sid, sp in self.species.items():
            if sid in self.rules:
                continue
            if sp.getHasOnlySubstanceUnits():
                out[sid] = amount_rate[sid]
            else:
                out[sid] = amount_rate[sid] / self.value(sp.getCompartment(), state, t, initial=False)
        return out

    def rate_rule_rates(self, state: dict[str, float], t: float = 0.0) -> dict[str, float]:
        """d/dt of every quantity under a rate rule (`state` carries their current values next to the species')."""
        look = lambda n: self.value(n, state, t, initial=False)  # noqa: E731
        return {k: float(eval_ast(mth, look, self.fdefs, t)) for k, mth in self.rate_rules.items()}

    def size_of(self, sid: str) -> float:
        return self.value(self.species[sid].getCompartment(), None, 0.0, initial=True)

    def rule_values(self, state: dict[str, float], t: float = 0.0) -> dict[str, float]:
        return {k: self.value(k, state, t, initial=False) for k in self.rules}
