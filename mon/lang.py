"""Execute generated model code with the target's real toolchain where installed:
CPython (exec), node 20 (after stripping the type annotations the generator
emits), rustc; and a Julia-subset evaluator (Julia itself is not installed).
"""

from __future__ import annotations

import json
import math
import os
import re
import subprocess
import tempfile


class NotWellFormed(Exception):
    pass


# ---------------------------------------------------------------- Python ----


def run_py(code: str, calls: list[tuple[float, list[float], list[float]]]) -> list[list[float]]:
    try:
        compiled = compile(code, "<generated-py>", "exec")
    except SyntaxError as e:
        raise NotWellFormed(f"python: {e}") from e
    ns: dict = {}
    exec(compiled, ns)  # noqa: S102
    if "model" not in ns:
        raise NotWellFormed("python: no function 'model'")
    out = []
    for t, state, extra in calls:
        try:
            r = ns["model"](t, list(state), *extra)
        except (TypeError, ValueError, NameError) as e:
            raise NotWellFormed(f"python: calling model raised {type(e).__name__}: {e}") from e
        try:
            out.append([float(v) for v in r])
        except TypeError as e:
            raise NotWellFormed(f"python: model did not return one derivative per variable ({r!r})") from e
    return out


# ------------------------------------------------------------ TypeScript ----

_TS_ANN = re.compile(r":\s*number(\[\])?")


def strip_ts(code: str) -> str:
    """Remove exactly the annotation shapes the generator emits (`: number`, `: number[]`)."""
    return _TS_ANN.sub("", code)


def run_ts(code: str, calls: list[tuple[float, list[float], list[float]]], workdir: str) -> list[list[float]]:
    js = strip_ts(code)
    driver = js + "\nconst calls = " + json.dumps([[t, s, e] for t, s, e in calls]) + (
        ";\nconst out = calls.map(c => Array.from(model(c[0], c[1], ...c[2])));\nconsole.log(JSON.stringify(out));\n"
    )
    path = os.path.join(workdir, f"gen_{os.getpid()}.js")
    with open(path, "w") as fh:
        fh.write(driver)
    chk = subprocess.run(["node", "--check", path], capture_output=True, text=True, timeout=60)  # noqa: S603, S607
    if chk.returncode != 0:
        raise NotWellFormed("typescript (type-stripped): " + chk.stderr[-400:])
    p = subprocess.run(["node", path], capture_output=True, text=True, timeout=60)  # noqa: S603, S607
    if p.returncode != 0:
        raise NotWellFormed("typescript (type-stripped) failed at run time: " + p.stderr[-400:])
    vals = json.loads(p.stdout)
    return [[float("nan") if v is None else float(v) for v in row] for row in vals]


# ------------------------------------------------------------------ Rust ----


def run_rs(codes: list[str], calls: list[list[tuple[float, list[float], list[float]]]], workdir: str) -> list[list[list[float]] | str]:
    """Compile all functions as modules of one file; returns per function its outputs or a compile error text."""
    env = dict(os.environ)
    env.setdefault("RUSTUP_HOME", "/root/.rustup")
    env.setdefault("CARGO_HOME", "/root/.cargo")

    def build(idx: list[int]) -> tuple[bool, str, str]:
        parts = []
        main = ["fn main() {"]
        for i in idx:
            parts.append(f"mod m{i} {{\n#[allow(warnings)]\npub " + codes[i].lstrip() + "\n}\n")
            for t, state, extra in calls[i]:
                arr = ", ".join(_f(v) for v in state)
                ex = "".join(", " + _f(v) for v in extra)
                main.append(f"    println!(\"{i} {{:?}}\", m{i}::model({_f(t)}, &[{arr}]{ex}));")
        main.append("}")
        src = "#![allow(warnings)]\n" + "\n".join(parts) + "\n".join(main) + "\n"
        path = os.path.join(workdir, f"gen_{os.getpid()}.rs")
        exe = os.path.join(workdir, f"gen_{os.getpid()}.bin")
        with open(path, "w") as fh:
            fh.write(src)
        p = subprocess.run(["rustc", "-A", "warnings", "-C", "opt-level=0", "-o", exe, path], capture_output=True, text=True, timeout=300, env=env)  # noqa: S603, S607
        if p.returncode != 0:
            return False, p.stderr, ""
        r = subprocess.run([exe], capture_output=True, text=True, timeout=60)  # noqa: S603
        return True, "", r.stdout

    results: list = [None] * len(codes)

    def solve(idx: list[int]) -> None:
        ok, err, out = build(idx)
        if ok:
            rows: dict[int, list] = {i: [] for i in idx}
            for line in out.splitlines():
                i, arr = line.split(" ", 1)
                rows[int(i)].append([_pf(x) for x in arr.strip("[] ").split(",") if x.strip()])
            for i in idx:
                results[i] = rows[i]
        elif len(idx) == 1:
            results[idx[0]] = "rustc: " + "\n".join(ln for ln in err.splitlines() if ln.startswith("error") or "-->" in ln or "|" in ln)[:600]
        else:
            mid = len(idx) // 2
            solve(idx[:mid])
            solve(idx[mid:])

    solve(list(range(len(codes))))
    return results


def _f(v: float) -> str:
    s = repr(float(v))
    if "e" in s or "E" in s or "." in s or "inf" in s or "nan" in s:
        return s + ("_f64" if "." in s or "e" in s else "")
    return s + ".0_f64"


def _pf(x: str) -> float:
    x = x.strip()
    if x == "NaN":
        return float("nan")
    if x in ("inf", "-inf"):
        return float(x)
    return float(x)


# ----------------------------------------------------------------- Julia ----
# Subset: `function model(time, variables[, p...])`, `a, b = variables`, `name = expr`, `return a, b`, `end`
# with expressions as sympy's julia_code prints them.

_TOK = re.compile(r"\s*(?:(\d+\.\d*(?:[eE][-+]?\d+)?|\d+(?:[eE][-+]?\d+)?|\.\d+)|([A-Za-z_][A-Za-z_0-9]*)|(\.\^|\.\*|\./|&&|\|\||==|!=|<=|>=|[-+*/^()<>?:,!]))")


class JuliaSubsetError(Exception):
    pass


def _tokens(s: str) -> list[tuple[str, str]]:
    out = []
    pos = 0
    s = s.strip()
    while pos < len(s):
        m = _TOK.match(s, pos)
        if not m:
            raise JuliaSubsetError(f"cannot tokenise {s[pos:pos + 20]!r}")
        if m.group(1):
            out.append(("num", m.group(1)))
        elif m.group(2):
            out.append(("id", m.group(2)))
        else:
            out.append(("op", m.group(3)))
        pos = m.end()
    return out


class _P:
    FUNCS = {"sqrt": math.sqrt, "exp": math.exp, "log": math.log, "abs": abs, "sin": math.sin, "cos": math.cos, "tan": math.tan,
             "floor": math.floor, "ceil": math.ceil, "min": min, "max": max}

    def __init__(self, toks: list[tuple[str, str]], env: dict) -> None:
        self.t = toks
        self.i = 0
        self.env = env

    def peek(self) -> tuple[str, str] | None:
        return self.t[self.i] if self.i < len(self.t) else None

    def eat(self, val: str | None = None) -> tuple[str, str]:
        tok = self.peek()
        if tok is None or (val is not None and tok[1] != val):
            raise JuliaSubsetError(f"expected {val!r}, got {tok!r}")
        self.i += 1
        return tok

    def parse(self) -> float:
        v = self.ternary()
        if self.peek() is not None:
            raise JuliaSubsetError(f"trailing tokens {self.t[self.i:]!r}")
        return v

    def ternary(self) -> float:
        c = self.oror()
        if self.peek() == ("op", "?"):
            self.eat("?")
            a = self.ternary()
            self.eat(":")
            b = self.ternary()
            return a if c else b
        return c

    def oror(self) -> float:
        v = self.andand()
        while self.peek() == ("op", "||"):
            self.eat()
            r = self.andand()
            v = bool(v) or bool(r)
        return v

    def andand(self) -> float:
        v = self.cmp()
        while self.peek() == ("op", "&&"):
            self.eat()
            r = self.cmp()
            v = bool(v) and bool(r)
        return v

    def cmp(self) -> float:
        v = self.add()
        tok = self.peek()
        if tok and tok[0] == "op" and tok[1] in ("<", ">", "<=", ">=", "==", "!="):
            self.eat()
            r = self.add()
            return {"<": v < r, ">": v > r, "<=": v <= r, ">=": v >= r, "==": v == r, "!=": v != r}[tok[1]]
        return v

    def add(self) -> float:
        v = self.mul()
        while (tok := self.peek()) and tok[0] == "op" and tok[1] in ("+", "-"):
            self.eat()
            r = self.mul()
            v = v + r if tok[1] == "+" else v - r
        return v

    def mul(self) -> float:
        v = self.unary()
        while (tok := self.peek()) and tok[0] == "op" and tok[1] in ("*", ".*", "/", "./"):
            self.eat()
            r = self.unary()
            v = v * r if tok[1] in ("*", ".*") else v / r
        return v

    def unary(self) -> float:
        tok = self.peek()
        if tok == ("op", "-"):
            self.eat()
            return -self.unary()
        if tok == ("op", "+"):
            self.eat()
            return self.unary()
        if tok == ("op", "!"):
            self.eat()
            return not self.unary()
        return self.power()

    def power(self) -> float:
        b = self.atom()
        tok = self.peek()
        if tok and tok[0] == "op" and tok[1] in ("^", ".^"):
            self.eat()
            e = self.unary()  # right associative
            return b**e
        return b

    def atom(self) -> float:
        tok = self.eat()
        if tok[0] == "num":
            return float(tok[1])
        if tok[0] == "id":
            if self.peek() == ("op", "("):
                self.eat("(")
                args = []
                if self.peek() != ("op", ")"):
                    args.append(self.ternary())
                    while self.peek() == ("op", ","):
                        self.eat()
                        args.append(self.ternary())
                self.eat(")")
                if tok[1] not in self.FUNCS:
                    raise JuliaSubsetError(f"unknown function {tok[1]}")
                return self.FUNCS[tok[1]](*args)
            if tok[1] == "pi":
                return math.pi
            if tok[1] not in self.env:
                raise JuliaSubsetError(f"undefined name {tok[1]!r}")
            return self.env[tok[1]]
        if tok == ("op", "("):
            v = self.ternary()
            self.eat(")")
            return v
        raise JuliaSubsetError(f"unexpected token {tok!r}")


def julia_eval(expr: str, env: dict) -> float:
    return _P(_tokens(expr), env).parse()


def run_jl(code: str, calls: list[tuple[float, list[float], list[float]]]) -> list[list[float]]:
    lines = logical_lines(code)
    m = re.match(r"^function model\(time, variables((?:, [A-Za-z_][A-Za-z_0-9]*)*)\)$", lines[0].strip())
    if not m or lines[-1].strip() != "end":
        raise NotWellFormed("julia: function header / end not in the subset")
    extra_names = [x for x in m.group(1).split(", ") if x]
    out = []
    for t, state, extra in calls:
        env: dict = {"time": t}
        env.update(dict(zip(extra_names, extra)))
        ret = None
        for ln in lines[1:-1]:
            s = ln.strip()
            if s.startswith("return"):
                body = s[len("return"):].strip()
                if body in ("()", ""):
                    ret = []
                else:
                    try:
                        ret = [julia_eval(p, env) for p in _split_top(body)]
                    except JuliaSubsetError as e:
                        raise NotWellFormed(f"julia: return statement: {e}") from e
                break
            if "=" not in s:
                raise NotWellFormed(f"julia: statement not in the subset: {s!r}")
            lhs, rhs = s.split("=", 1)
            lhs, rhs = lhs.strip(), rhs.strip()
            if rhs == "variables":
                names = [n.strip() for n in lhs.split(",") if n.strip()]
                if len(names) != len(state):
                    raise NotWellFormed("julia: destructuring does not match the number of variables")
                env.update(dict(zip(names, state)))
                continue
            if rhs.startswith("*"):
                raise NotWellFormed(f"julia: '{s}' is not Julia (splat on the right-hand side of an assignment)")
            if not re.match(r"^[A-Za-z_][A-Za-z_0-9]*$", lhs):
                raise NotWellFormed(f"julia: assignment target not a name: {lhs!r}")
            try:
                env[lhs] = julia_eval(rhs, env)
            except JuliaSubsetError as e:
                raise NotWellFormed(f"julia: {s!r}: {e}") from e
        if ret is None:
            raise NotWellFormed("julia: no return statement")
        out.append([float(v) for v in ret])
    return out


def logical_lines(code: str) -> list[str]:
    """Join physical lines while parentheses are unbalanced (Julia continues an incomplete expression)."""
    out: list[str] = []
    cur = ""
    for ln in code.split("\n"):
        if not ln.strip():
            continue
        cur = ln if not cur else cur + " " + ln.strip()
        if cur.count("(") <= cur.count(")"):
            out.append(cur)
            cur = ""
    if cur:
        out.append(cur)
    return out


def _split_top(s: str) -> list[str]:
    parts, depth, cur = [], 0, ""
    for ch in s:
        if ch == "(":
            depth += 1
        elif ch == ")":
            depth -= 1
        if ch == "," and depth == 0:
            parts.append(cur)
            cur = ""
        else:
            cur += ch
    parts.append(cur)
    return [p.strip() for p in parts]


def toolchains() -> dict:
    out = {}
    for name, cmd in (("node", ["node", "--version"]), ("rustc", ["rustc", "--version"])):
        try:
            env = dict(os.environ)
            env.setdefault("RUSTUP_HOME", "/root/.rustup")
            env.setdefault("CARGO_HOME", "/root/.cargo")
            out[name] = subprocess.run(cmd, capture_output=True, text=True, timeout=60, env=env).stdout.strip()  # noqa: S603
        except Exception as e:  # noqa: BLE001
            out[name] = f"missing: {e}"
    return out


def scratch() -> str:
    d = os.path.join(os.environ.get("VERIF_WORKDIR", tempfile.gettempdir()), "lang")
    os.makedirs(d, exist_ok=True)
    return d
