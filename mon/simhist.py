"""Sequential specification of Simulator bookkeeping + offline checker of the
accumulated result against the closed-form piecewise solution (C04, C14).

History events are recorded at the client boundary: (op, args) before the call,
outcome (ok / exception type) after it.  The specification tracks the time
reached, the state there, the parameters in force and, per expected segment,
what the result frame must contain.
"""

from __future__ import annotations

from typing import Any

import numpy as np
import pandas as pd

from mon.core import close
from mon.linmodel import LinNet

TOL_REL = 1e-4
TOL_ABS = 1e-6
T_EPS = 1e-9


class Spec:
    def __init__(self, net: LinNet, y0: dict[str, float]) -> None:
        self.net = net
        self.params = dict(net.params)
        self.t = None  # time reached (None: nothing simulated yet -> 0)
        self.x = dict(y0)
        self.y0_initial = dict(y0)
        self.segments: list[dict] = []  # expected segments
        self.sensitive = {"restart": 0, "stale_params": 0, "offset": 0}
        self.param_changed_since_last = False
        self.prev_params: dict | None = None
        # the caller's own time-point arrays: a grid that recurs in a history is handed over as the same float64 array
        # object again, the way a script re-uses one np.linspace for several runs
        self.grids: dict[tuple, np.ndarray] = {}

    def grid(self, points: list[float]) -> np.ndarray:
        return self.grids.setdefault(tuple(points), np.array(points, dtype=float))

    @property
    def t_reached(self) -> float:
        return 0.0 if self.t is None else self.t

    def _sens(self, t0: float, t1: float, x0: dict, params: dict) -> None:
        """Would the plausible mistakes change the segment end state by > 100x tolerance?"""
        right = self.net.propagate(x0, params, t1 - t0)
        thr = 100 * (TOL_REL * max(1.0, max(abs(v) for v in right.values())) + TOL_ABS)

        def far(other: dict) -> bool:
            return max(abs(other[k] - right[k]) for k in right) > thr

        if self.segments:
            if far(self.net.propagate(self.y0_initial, params, t1 - t0)):
                self.sensitive["restart"] += 1
            if far(self.net.propagate(x0, params, t1)):
                self.sensitive["offset"] += 1
        if self.prev_params is not None and self.prev_params != params and far(self.net.propagate(x0, self.prev_params, t1 - t0)):
            self.sensitive["stale_params"] += 1

    def add_tc_segment(self, t_end: float, requested: list[float], *, steps: int | None, grid: bool) -> None:
        t0 = self.t_reached
        first = not self.segments
        self._sens(t0, t_end, self.x, self.params)
        self.segments.append(
            {"kind": "tc", "t0": t0, "t1": t_end, "x0": dict(self.x), "params": dict(self.params),
             "requested": [p for p in requested if p > t0 + T_EPS or (first and abs(p - t0) <= T_EPS)],
             "steps": steps, "grid": grid, "first": first}
        )
        self.x = self.net.propagate(self.x, self.params, t_end - t0)
        self.t = t_end
        self.prev_params = dict(self.params)

    def add_ss_segment(self) -> None:
        self.segments.append({"kind": "ss", "t0": self.t_reached, "x0": dict(self.x), "params": dict(self.params), "first": not self.segments})
        self.x = self.net.steady(self.params)
        self.prev_params = dict(self.params)
        # self.t is set from the observed row (left free by the statement)


def verify(spec: Spec, sim: Any, *, check_fluxes: bool = False) -> list[dict]:
    """Compare the simulator's accumulated result with the specification."""
    out: list[dict] = []
    res = sim.get_result().value
    if isinstance(res, Exception):
        if spec.segments:
            out.append({"what": "result is a failure value although segments were simulated", "error": repr(res)})
        return out
    frames = res.get_variables(include_derived_variables=False, include_readouts=False, include_surrogate_variables=False, concatenated=False)
    if len(frames) != len(spec.segments):
        out.append({"what": "number of result segments differs", "got": len(frames), "expected": len(spec.segments)})
        return out
    allidx = np.concatenate([np.asarray(f.index, dtype=float) for f in frames]) if frames else np.array([])
    if len(allidx) > 1 and not (np.diff(allidx) > 0).all():
        bad = int(np.argmax(np.diff(allidx) <= 0))
        out.append({"what": "time axis not strictly increasing", "around": allidx[max(0, bad - 1): bad + 3].tolist()})
    # the default views (computed lazily from the argument tables) cover the same rows as the raw states
    try:
        vidx = np.asarray(res.variables.index, dtype=float)
        if len(vidx) != len(allidx) or not np.allclose(vidx, allidx, rtol=0, atol=1e-12):
            out.append({"what": "the result's default variables view does not cover the simulated segments", "view_rows": len(vidx), "simulated_rows": len(allidx),
                        "view_tail": vidx[-3:].tolist(), "simulated_tail": allidx[-3:].tolist()})
            return out
    except Exception as e:  # noqa: BLE001
        out.append({"what": "reading the result's default variables view raised", "error": f"{type(e).__name__}: {e}"[:300]})
        return out
    rp = res.raw_parameters
    if len(rp) != len(spec.segments):
        out.append({"what": "raw_parameters length differs from segments", "got": len(rp)})
    flux_frames = res.get_fluxes(concatenated=False) if check_fluxes else None
    t_prev = None
    for i, (seg, f) in enumerate(zip(spec.segments, frames)):
        idx = np.asarray(f.index, dtype=float)
        if i < len(rp) and {k: float(v) for k, v in rp[i].items()} != {k: float(v) for k, v in seg["params"].items()}:
            out.append({"what": "raw_parameters of segment differ from the parameters in force", "segment": i, "got": dict(rp[i]), "expected": seg["params"]})
        if seg["kind"] == "ss":
            if len(idx) != 1:
                out.append({"what": "steady-state segment should be one row", "segment": i, "rows": len(idx)})
                continue
            seg["t_obs"] = float(idx[0])
            exp = spec.net.steady(seg["params"])
            got = f.iloc[0].to_dict()
            if any(not close(got[k], exp[k], 1e-3, 1e-5) for k in exp):
                out.append({"what": "steady-state row differs from analytic steady state", "segment": i, "got": got, "expected": exp})
            if t_prev is not None and not idx[0] > t_prev:
                out.append({"what": "steady-state row not later than time already reached", "segment": i, "t": float(idx[0]), "t_reached": t_prev})
            t_prev = float(idx[0])
            continue
        t0 = seg["t0"]
        # a preceding steady-state segment fixes t0 by observation
        if i > 0 and spec.segments[i - 1]["kind"] == "ss":
            t0 = spec.segments[i - 1].get("t_obs", t0)
            shift = t0 - seg["t0"]
        else:
            shift = 0.0
        t1 = seg["t1"] + shift
        lo_ok = (idx >= t0 - T_EPS).all() if seg["first"] else (idx > t0 + T_EPS).all()
        if not lo_ok or not (idx <= t1 + T_EPS).all():
            out.append({"what": "segment contains times outside (time reached, requested end]", "segment": i, "t0": t0, "t1": t1, "index": idx[:6].tolist() + idx[-3:].tolist()})
        if len(idx) == 0 or abs(idx[-1] - t1) > T_EPS:
            out.append({"what": "segment does not end at the requested end time", "segment": i, "t1": t1, "last": float(idx[-1]) if len(idx) else None})
        for p in seg["requested"]:
            n = int(np.sum(np.abs(idx - (p + shift)) <= T_EPS))
            if n != 1:
                out.append({"what": "requested time point not contained exactly once", "segment": i, "point": p + shift, "count": n})
                break
        if seg["grid"]:
            allowed = [p + shift for p in seg["requested"]] + ([t0] if seg["first"] else [])
            extra = [float(t) for t in idx if not any(abs(t - a) <= T_EPS for a in allowed)]
            if extra:
                out.append({"what": "time-course result contains points that were not requested", "segment": i, "extra": extra[:5]})
        if seg["steps"] is not None:
            want = seg["steps"] + (1 if seg["first"] else 0)
            if len(idx) != want:
                out.append({"what": "simulate(steps=n) returned a different number of rows", "segment": i, "got": len(idx), "expected": want})
        # values: closed form from the segment's start state
        bad = None
        for t, row in zip(idx, f.to_numpy()):
            exp = spec.net.propagate(seg["x0"], seg["params"], float(t) - t0)
            for j, v in enumerate(spec.net.variables):
                if not close(row[j], exp[v], TOL_REL, TOL_ABS):
                    bad = {"t": float(t), "variable": v, "got": float(row[j]), "expected": exp[v]}
                    break
            if bad:
                break
        if bad:
            out.append({"what": "trajectory differs from the exact piecewise solution", "segment": i, **bad, "x0": seg["x0"], "t0": t0, "params": seg["params"]})
        if flux_frames is not None:
            if i >= len(flux_frames):
                out.append({"what": "result reports fewer flux frames than simulated segments", "segments": len(frames), "flux_frames": len(flux_frames)})
                break
            ff = flux_frames[i]
            for t in list(idx[:2]) + list(idx[-1:]):
                state = f.loc[t].to_dict()
                exp = spec.net.fluxes(state, seg["params"])
                got = ff.loc[t].to_dict()
                if any(not close(got[k], exp[k], 1e-9) for k in exp):
                    out.append({"what": "fluxes inside a segment not computed with that segment's parameter values", "segment": i, "t": float(t), "got": got, "expected": exp})
                    break
        t_prev = float(idx[-1]) if len(idx) else t_prev
    return out


def make_protocol(steps: list[tuple[float, dict[str, float]]]) -> pd.DataFrame:
    from mxlpy import make_protocol as mp

    return mp(steps)


# --------------------------------------------------------------------------
# executor: apply one op to the real Simulator and to the specification
# --------------------------------------------------------------------------


def execute(sim: Any, spec: Spec, op: dict) -> tuple[list[dict], bool]:
    """Returns (violations, stop). Call/return recorded at the client boundary."""
    k = op["op"]
    legal = True
    if k == "simulate":
        legal = op["t_end"] > spec.t_reached + T_EPS
    elif k == "simulate_tc":
        legal = op["points"][-1] > spec.t_reached + T_EPS
    elif k == "protocol_tc":
        pts = [p + (spec.t_reached if op.get("relative") else 0.0) for p in op["points"]]
        legal = pts[-1] > spec.t_reached + T_EPS
    raised = None
    try:
        if k == "simulate":
            sim.simulate(op["t_end"], steps=op.get("steps"))
        elif k == "simulate_tc":
            sim.simulate_time_course(spec.grid(op["points"]))
        elif k == "update_parameter":
            sim.update_parameter(op["name"], op["value"])
        elif k == "update_parameters":
            sim.update_parameters(dict(op["values"]))
        elif k == "scale_parameter":
            sim.scale_parameter(op["name"], op["factor"])
        elif k == "scale_parameters":
            sim.scale_parameters(dict(op["factors"]))
        elif k == "update_variable":
            sim.update_variable(op["name"], op["value"])
        elif k == "update_variables":
            sim.update_variables(dict(op["values"]))
        elif k == "steady":
            sim.simulate_to_steady_state()
        elif k == "read_views":
            # reading result views between operations must not change what the next segment runs with
            res0 = sim.get_result().value
            if not isinstance(res0, Exception):
                _ = res0.fluxes
                _ = res0.get_right_hand_side()
                _ = res0.get_producers(spec.net.variables[0], scaled=True)
        elif k == "clear":
            sim.clear_results()
        elif k == "protocol":
            sim.simulate_protocol(make_protocol([(d, v) for d, v in op["steps"]]), time_points_per_step=op["n"])
        elif k == "protocol_tc":
            sim.simulate_protocol_time_course(
                make_protocol([(d, v) for d, v in op["steps"]]), spec.grid(op["points"]),
                time_points_as_relative=bool(op.get("relative")),
            )
        else:
            raise AssertionError(k)
    except ValueError as e:
        raised = f"ValueError: {e}"
    except Exception as e:  # noqa: BLE001
        raised = f"{type(e).__name__}: {e}"[:300]
    for key_, arr_ in spec.grids.items():
        if arr_.shape != (len(key_),) or not np.array_equal(arr_, np.array(key_, dtype=float)):
            return [{"what": "a grid of time points handed to the simulator was changed behind the caller's back", "op": op, "written": list(key_), "now": arr_.tolist()}], True
    if raised is not None:
        if legal:
            return [{"what": "legal operation raised" if not raised.startswith("ValueError") else "legal continuation refused", "op": op, "error": raised, "t_reached": spec.t_reached}], True
        if not raised.startswith("ValueError"):
            return [{"what": "illegal continuation raised something other than ValueError", "op": op, "error": raised}], True
        return [], False
    if not legal:
        return [{"what": "continuation with end not later than the time reached was not refused", "op": op, "t_reached": spec.t_reached}], True
    # ---- update the specification -------------------------------------------
    if k == "simulate":
        spec.add_tc_segment(op["t_end"], [op["t_end"]], steps=op.get("steps"), grid=False)
    elif k == "simulate_tc":
        spec.add_tc_segment(op["points"][-1], list(op["points"]), steps=None, grid=False)
    elif k == "update_parameter":
        spec.params[op["name"]] = op["value"]
    elif k == "update_parameters":
        spec.params.update(op["values"])
    elif k == "scale_parameter":
        spec.params[op["name"]] = spec.params[op["name"]] * op["factor"]
    elif k == "scale_parameters":
        for n_, f_ in op["factors"].items():
            spec.params[n_] = spec.params[n_] * f_
    elif k == "update_variable":
        spec.x[op["name"]] = op["value"]
    elif k == "update_variables":
        spec.x.update(op["values"])
    elif k == "steady":
        spec.add_ss_segment()
        res = sim.get_result().value
        if isinstance(res, Exception):
            return [{"what": "steady-state run on a stable linear network reported failure (accepted by the statement)", "benign": True}], True
        spec.t = float(res.raw_variables[-1].index[-1])
    elif k == "read_views":
        pass
    elif k == "clear":
        spec.segments = []
        spec.t = None
        spec.x = {k2: float(v) for k2, v in dict(sim.y0).items()}
        spec.prev_params = None
    elif k == "protocol":
        t = spec.t_reached
        for d, vals in op["steps"]:
            spec.params.update(vals)
            t += d
            spec.add_tc_segment(t, [t], steps=op["n"], grid=False)
    elif k == "protocol_tc":
        t0 = spec.t_reached
        pts = [p + (t0 if op.get("relative") else 0.0) for p in op["points"]]
        t = t0
        for d, vals in op["steps"]:
            spec.params.update(vals)
            lo, hi = t, t + d
            inside = [p for p in pts if lo + T_EPS < p <= hi + T_EPS]
            if not any(abs(p - hi) <= T_EPS for p in inside):
                inside.append(hi)
            spec.add_tc_segment(hi, sorted(inside), steps=None, grid=True)
            t = hi
    return [], False
