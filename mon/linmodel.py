"""Linear networks dx/dt = A(p) x + b(p) with closed-form solutions (expm).

Independent of solve_ivp: the exact state after dt is the top block of
expm([[A, b], [0, 0]] * dt) applied to (x, 1).
"""

from __future__ import annotations

import numpy as np
from scipy.linalg import expm

from mon.fnlib import basic as fl


class LinNet:
    def __init__(self, variables: list[str], rxns: list[dict], params: dict[str, float], y0: dict[str, float]) -> None:
        self.variables = variables
        self.rxns = rxns  # {"name","k","sub"(None|var),"stoich":{var:coef}}
        self.params = dict(params)
        self.y0 = dict(y0)

    # ---- real-model spec ---------------------------------------------------
    def spec(self) -> dict:
        comps: list[dict] = [{"kind": "parameter", "name": k, "value": v} for k, v in self.params.items()]
        comps += [{"kind": "variable", "name": v, "value": self.y0[v]} for v in self.variables]
        for r in self.rxns:
            if r["sub"] is None:
                comps.append({"kind": "reaction", "name": r["name"], "fn": fl.ref(fl.lin_const), "args": [r["k"]], "stoich": dict(r["stoich"])})
            else:
                comps.append({"kind": "reaction", "name": r["name"], "fn": fl.ref(fl.lin_ma), "args": [r["k"], r["sub"]], "stoich": dict(r["stoich"])})
        return {"components": comps}

    # ---- closed form --------------------------------------------------------
    def Ab(self, params: dict[str, float]) -> tuple[np.ndarray, np.ndarray]:
        n = len(self.variables)
        idx = {v: i for i, v in enumerate(self.variables)}
        A = np.zeros((n, n))
        b = np.zeros(n)
        for r in self.rxns:
            k = params[r["k"]]
            for v, c in r["stoich"].items():
                if r["sub"] is None:
                    b[idx[v]] += c * k
                else:
                    A[idx[v], idx[r["sub"]]] += c * k
        return A, b

    def propagate(self, x: dict[str, float], params: dict[str, float], dt: float) -> dict[str, float]:
        A, b = self.Ab(params)
        n = len(self.variables)
        M = np.zeros((n + 1, n + 1))
        M[:n, :n] = A
        M[:n, n] = b
        z = np.array([x[v] for v in self.variables] + [1.0])
        out = expm(M * dt) @ z
        return {v: float(out[i]) for i, v in enumerate(self.variables)}

    def steady(self, params: dict[str, float]) -> dict[str, float]:
        A, b = self.Ab(params)
        x = np.linalg.solve(A, -b)
        return {v: float(x[i]) for i, v in enumerate(self.variables)}

    def slowest_rate(self, params: dict[str, float]) -> float:
        A, _ = self.Ab(params)
        return float(-max(np.linalg.eigvals(A).real))

    def fluxes(self, x: dict[str, float], params: dict[str, float]) -> dict[str, float]:
        return {r["name"]: params[r["k"]] * (1.0 if r["sub"] is None else x[r["sub"]]) for r in self.rxns}

    def to_json(self) -> dict:
        return {"variables": self.variables, "rxns": self.rxns, "params": self.params, "y0": self.y0}


def gen_linnet(rng, *, n_min: int = 2, n_max: int = 3, kmin: float = 0.25, kmax: float = 2.0) -> LinNet:  # noqa: ANN001
    """Stable compartmental network: influx -> x0 -> x1 -> ... -> efflux, plus random reverse / branch edges."""
    n = rng.randint(n_min, n_max)
    variables = [f"x{i}" for i in range(n)]
    rxns: list[dict] = []
    params: dict[str, float] = {}

    def par() -> str:
        name = f"k{len(params)}"
        params[name] = round(rng.uniform(kmin, kmax) * 8) / 8.0 or kmin
        return name

    rxns.append({"name": "vin", "k": par(), "sub": None, "stoich": {"x0": 1}})
    for i in range(n - 1):
        rxns.append({"name": f"v{i}", "k": par(), "sub": f"x{i}", "stoich": {f"x{i}": -1, f"x{i + 1}": 1}})
    rxns.append({"name": "vout", "k": par(), "sub": f"x{n - 1}", "stoich": {f"x{n - 1}": -1}})
    for j in range(rng.randint(0, 2)):
        a, b = rng.sample(range(n), 2)
        rxns.append({"name": f"w{j}", "k": par(), "sub": f"x{a}", "stoich": {f"x{a}": -1, f"x{b}": 1}})
    if rng.random() < 0.3:
        a = rng.randrange(n)
        rxns.append({"name": "vleak", "k": par(), "sub": f"x{a}", "stoich": {f"x{a}": -1}})
    y0 = {v: round(rng.uniform(0.0, 3.0) * 8) / 8.0 for v in variables}
    return LinNet(variables, rxns, params, y0)
