"""ModelSpec (plain data) + independent reference evaluator + real-model builder.

The evaluator is written from the property statements, not from the code:
memoised depth-first resolution on names with cycle / missing detection, a
two-phase semantics (phase 0: everything at t=0 from declared values; phase q:
assignment-defined values and parameter-only derived quantities frozen, the
rest recomputed from the supplied state), stoichiometry summed per variable
straight from the spec.
"""

from __future__ import annotations

import copy
from typing import Any

from mon.fnlib import basic as fl


class RefMissing(Exception):
    def __init__(self, missing: dict[str, list[str]]):
        super().__init__(str(missing))
        self.missing = missing


class RefCycle(Exception):
    pass


TIME = "time"


def fn_of(d: dict):  # noqa: ANN201
    return fl.resolve(d["fn"])


class Ref:
    """Reference semantics of a spec."""

    def __init__(self, spec: dict) -> None:
        self.spec = spec
        self.comps = spec["components"]
        self.provider: dict[str, dict] = {}
        self.names_by_kind: dict[str, list[str]] = {
            k: [] for k in ("parameter", "variable", "derived", "reaction", "readout", "surrogate", "data")
        }
        for c in self.comps:
            self.names_by_kind[c["kind"]].append(c["name"])
            if c["kind"] == "surrogate":
                for o in c["outputs"]:
                    self.provider[o] = c
            else:
                self.provider[c["name"]] = c
        self.variables = self.names_by_kind["variable"]
        self._static_memo: dict[str, bool] = {}
        self._v0: dict[str, Any] = {}
        self._resolve0()

    # ---- structure -------------------------------------------------------
    def requires(self, c: dict) -> list[str]:
        if c["kind"] in ("derived", "reaction", "readout", "surrogate"):
            return list(c["args"])
        if c["kind"] in ("parameter", "variable") and "ia" in c:
            return list(c["ia"]["args"])
        return []

    def classify_graph(self) -> tuple[dict[str, list[str]], bool]:
        """(missing names per component, has_cycle) over sortable components."""
        missing: dict[str, list[str]] = {}
        nodes = [c for c in self.comps if c["kind"] != "readout" and c["kind"] != "data"]
        for c in nodes:
            if c["kind"] in ("parameter", "variable") and "ia" not in c:
                continue
            m = sorted({a for a in self.requires(c) if a != TIME and a not in self.provider})
            if m:
                missing[c["name"]] = m
        # cycle detection via DFS colours on provider graph
        colour: dict[int, int] = {}
        cyc = False

        def visit(c: dict) -> None:
            nonlocal cyc
            colour[id(c)] = 1
            for a in self.requires(c):
                p = self.provider.get(a)
                if p is None or p["kind"] == "readout":
                    continue
                st = colour.get(id(p), 0)
                if st == 1:
                    cyc = True
                elif st == 0:
                    visit(p)
            colour[id(c)] = 2

        for c in nodes:
            if colour.get(id(c), 0) == 0:
                visit(c)
        return missing, cyc

    def is_static(self, name: str) -> bool:
        """Depends, through any chain, only on parameters."""
        if name in self._static_memo:
            return self._static_memo[name]
        p = self.provider.get(name)
        if p is None:
            res = False
        elif p["kind"] == "parameter" and p["name"] == name:
            res = True
        elif p["kind"] == "derived":
            self._static_memo[name] = False  # guard (graphs are acyclic when used)
            res = all(self.is_static(a) for a in p["args"])
        else:
            res = False
        self._static_memo[name] = res
        return res

    # ---- evaluation ------------------------------------------------------
    def _eval(self, name: str, memo: dict[str, Any], stack: set[str], leaf) -> Any:  # noqa: ANN001
        if name in memo:
            return memo[name]
        got = leaf(name)
        if got is not None:
            memo[name] = got[0]
            return got[0]
        c = self.provider.get(name)
        if c is None:
            raise RefMissing({"?": [name]})
        key = c["name"]
        if key in stack:
            raise RefCycle(key)
        stack.add(key)
        try:
            kind = c["kind"]
            if kind in ("parameter", "variable"):
                if "ia" in c:
                    args = [self._eval(a, memo, stack, leaf) for a in c["ia"]["args"]]
                    val = fn_of(c["ia"])(*args)
                else:
                    val = c["value"]
                memo[name] = val
            elif kind == "data":
                import pandas as pd

                val = pd.Series(c["values"], dtype=float)
                memo[name] = val
            elif kind == "surrogate":
                args = [self._eval(a, memo, stack, leaf) for a in c["args"]]
                outs = tuple(fn_of(c)(*args))
                assert len(outs) == len(c["outputs"])
                for o, v in zip(c["outputs"], outs):
                    memo[o] = v
            else:
                args = [self._eval(a, memo, stack, leaf) for a in c["args"]]
                memo[name] = fn_of(c)(*args)
        finally:
            stack.discard(key)
        return memo[name]

    def _resolve0(self) -> None:
        memo: dict[str, Any] = {}

        def leaf(n: str):  # noqa: ANN202
            return (0.0,) if n == TIME else None

        for c in self.comps:
            if c["kind"] == "readout":
                continue
            if c["kind"] == "surrogate":
                for o in c["outputs"]:
                    self._eval(o, memo, set(), leaf)
            else:
                self._eval(c["name"], memo, set(), leaf)
        self._v0 = memo

    def initial_conditions(self) -> dict[str, float]:
        return {v: float(self._v0[v]) for v in self.variables}

    def parameter_values(self) -> dict[str, float]:
        return {p: float(self._v0[p]) for p in self.names_by_kind["parameter"]}

    def derived_parameters(self) -> list[str]:
        return [d for d in self.names_by_kind["derived"] if self.is_static(d)]

    def derived_variables(self) -> list[str]:
        return [d for d in self.names_by_kind["derived"] if not self.is_static(d)]

    def at(self, state: dict[str, float] | None = None, t: float = 0.0, *, readouts: bool = True) -> dict[str, Any]:
        """All values at (state, t)."""
        st = self.initial_conditions() if state is None else state
        memo: dict[str, Any] = {}

        def leaf(n: str):  # noqa: ANN202
            if n == TIME:
                return (t,)
            if n in st and n in self.variables:
                return (st[n],)
            p = self.provider.get(n)
            if p is not None and p["kind"] == "parameter":
                return (self._v0[n],)
            if p is not None and p["kind"] == "derived" and self.is_static(n):
                return (self._v0[n],)
            return None

        for c in self.comps:
            if c["kind"] == "readout" and not readouts:
                continue
            if c["kind"] == "surrogate":
                for o in c["outputs"]:
                    self._eval(o, memo, set(), leaf)
            else:
                self._eval(c["name"], memo, set(), leaf)
        memo[TIME] = t
        return memo

    def coefficient(self, coef: Any, vals: dict[str, Any]) -> float:
        if isinstance(coef, (int, float)):
            return float(coef)
        if isinstance(coef, str):
            return float(vals[coef])
        return float(fn_of(coef)(*[vals[a] for a in coef["args"]]))

    def stoichiometry(self, vals: dict[str, Any]) -> dict[str, dict[str, float]]:
        """{variable: {flux name: resolved coefficient}}."""
        out: dict[str, dict[str, float]] = {}
        for c in self.comps:
            if c["kind"] == "reaction":
                for var, coef in c["stoich"].items():
                    out.setdefault(var, {})[c["name"]] = self.coefficient(coef, vals)
            elif c["kind"] == "surrogate":
                for flux, st in c.get("stoich", {}).items():
                    for var, coef in st.items():
                        out.setdefault(var, {})[flux] = self.coefficient(coef, vals)
        return out

    def flux_names(self) -> list[str]:
        names = list(self.names_by_kind["reaction"])
        for c in self.comps:
            if c["kind"] == "surrogate":
                names.extend(c.get("stoich", {}))
        return names

    def rhs(self, state: dict[str, float] | None = None, t: float = 0.0) -> dict[str, float]:
        vals = self.at(state, t, readouts=False)
        st = self.stoichiometry(vals)
        return {
            v: float(sum(coef * vals[flux] for flux, coef in st.get(v, {}).items()))
            for v in self.variables
        }


    def rhs_scale(self, state: dict[str, float] | None = None, t: float = 0.0) -> dict[str, float]:
        """Per variable: sum of |coefficient x flux| - the magnitude of the terms a derivative is made of (a derivative can
        be a small difference of large terms; its rounding error is relative to them, whatever the order of summation)."""
        vals = self.at(state, t, readouts=False)
        st = self.stoichiometry(vals)
        return {v: float(sum(abs(coef * vals[flux]) for flux, coef in st.get(v, {}).items())) for v in self.variables}


# --------------------------------------------------------------------------
# real model builder
# --------------------------------------------------------------------------


def _coef_real(coef: Any):  # noqa: ANN202
    from mxlpy import Derived

    if isinstance(coef, dict):
        return Derived(fn=fn_of(coef), args=list(coef["args"]))
    return coef


def _coef_real_surrogate(coef: Any):  # noqa: ANN202
    """Surrogate stoichiometries accept float | Derived only (no name shorthand)."""
    from mxlpy import Derived, fns

    if isinstance(coef, str):
        return Derived(fn=fns.constant, args=[coef])
    return _coef_real(coef)


CALLER_REUSE = [0]


def caller_goes_on_using(table: dict) -> None:
    """The table of coefficients handed to the model is the caller's own object: it is overwritten and extended afterwards
    (a builder that keeps one dict and edits it for the next reaction). The model's reaction is what was declared."""
    for k in list(table):
        table[k] = 12345.0
    table["__entry_added_by_the_caller_afterwards"] = 1.0
    CALLER_REUSE[0] += 1


def add_component(model, c: dict) -> None:  # noqa: ANN001
    """Add one spec component to a real model through the public builder API."""
    import pandas as pd
    from mxlpy import InitialAssignment
    from mxlpy.surrogates.abstract import MockSurrogate

    kind = c["kind"]
    if kind == "parameter":
        if "ia" in c:
            model.add_parameter(c["name"], InitialAssignment(fn=fn_of(c["ia"]), args=list(c["ia"]["args"])))
        else:
            model.add_parameter(c["name"], c["value"])
    elif kind == "variable":
        if "ia" in c:
            model.add_variable(c["name"], InitialAssignment(fn=fn_of(c["ia"]), args=list(c["ia"]["args"])))
        else:
            model.add_variable(c["name"], c["value"])
    elif kind == "derived":
        model.add_derived(c["name"], fn_of(c), args=list(c["args"]))
    elif kind == "reaction":
        st = {k: _coef_real(v) for k, v in c["stoich"].items()}
        try:
            model.add_reaction(c["name"], fn_of(c), args=list(c["args"]), stoichiometry=st)
        finally:
            caller_goes_on_using(st)
    elif kind == "readout":
        model.add_readout(c["name"], fn_of(c), args=list(c["args"]))
    elif kind == "surrogate":
        model.add_surrogate(
            c["name"],
            MockSurrogate(
                fn=fn_of(c),
                args=list(c["args"]),
                outputs=list(c["outputs"]),
                stoichiometries={
                    f: {k: _coef_real_surrogate(v) for k, v in st.items()} for f, st in c.get("stoich", {}).items()
                },
            ),
        )
    elif kind == "data":
        model.add_data(c["name"], pd.Series(c["values"], dtype=float))
    else:
        raise ValueError(kind)


def build(spec: dict, order: list[int] | None = None):  # noqa: ANN201
    from mxlpy import Model

    m = Model()
    comps = spec["components"]
    idx = range(len(comps)) if order is None else order
    for i in idx:
        add_component(m, comps[i])
    return m


# --------------------------------------------------------------------------
# generator
# --------------------------------------------------------------------------


def rnd_val(rng, lo: float = 0.2, hi: float = 2.0) -> float:  # noqa: ANN001
    return round(rng.uniform(lo, hi), 3)


def gen_spec(rng, *, rich: bool = True, surrogates: bool = True, data: bool = True, max_comp: int = 10) -> dict:  # noqa: ANN001
    """Random well-formed model spec. Components are created in dependency
    order (acyclic by construction); callers shuffle the declaration order."""
    comps: list[dict] = []
    pool: list[str] = []  # names usable as arguments
    static_pool: list[str] = []  # parameters and parameter-only derived
    n_par = rng.randint(1, 5)
    n_var = rng.randint(1, 5)
    variables = [f"x{i}" for i in range(n_var)]
    for i in range(n_par):
        comps.append({"kind": "parameter", "name": f"p{i}", "value": rnd_val(rng)})
        pool.append(f"p{i}")
        static_pool.append(f"p{i}")
    # some variables plain now, some by initial assignment later
    late_vars = []
    for v in variables:
        if rich and rng.random() < 0.25:
            late_vars.append(v)
        else:
            comps.append({"kind": "variable", "name": v, "value": rnd_val(rng)})
            pool.append(v)
    if data and rich and rng.random() < 0.2:
        comps.append({"kind": "data", "name": "dat0", "values": [rnd_val(rng) for _ in range(3)]})
    has_data = any(c["kind"] == "data" for c in comps)

    def pick_args(k: int, *, allow_time: bool = True, src: list[str] | None = None) -> list[str]:
        base = list(pool if src is None else src)
        if allow_time and rng.random() < 0.25:
            base = base + [TIME]
        return [rng.choice(base) for _ in range(k)]

    def pick_fn(max_arity: int = 4, min_arity: int = 0):  # noqa: ANN202
        ar = rng.randint(min_arity, max_arity)
        return ar, rng.choice(fl.BY_ARITY[ar])

    def coef() -> Any:
        r = rng.random()
        if not rich or r < 0.5:
            return rng.choice([-1, 1, -2, 2, 1.0, -1.0, 0.5, -1.5, 3, -0.25])
        if r < 0.7:
            cands = static_pool + [c["name"] for c in comps if c["kind"] == "derived"]
            return rng.choice(cands)
        ar, f = pick_fn(3, 1)
        # bias: half of the computed coefficients parameter-only
        src = static_pool if rng.random() < 0.4 else None
        return {"fn": fl.ref(f), "args": pick_args(ar, src=src)}

    n_more = rng.randint(1, max_comp)
    k_d = k_r = k_s = k_ia = 0
    rx_names: list[str] = []
    for _ in range(n_more):
        r = rng.random()
        if late_vars and r < 0.2:
            v = late_vars.pop()
            ar, f = pick_fn(3, 0)
            comps.append({"kind": "variable", "name": v, "ia": {"fn": fl.ref(f), "args": pick_args(ar, allow_time=False)}})
            pool.append(v)
        elif rich and r < 0.3:
            ar, f = pick_fn(3, 0)
            name = f"q{k_ia}"
            k_ia += 1
            comps.append({"kind": "parameter", "name": name, "ia": {"fn": fl.ref(f), "args": pick_args(ar, allow_time=False)}})
            pool.append(name)
            static_pool.append(name)
        elif r < 0.6:
            name = f"d{k_d}"
            k_d += 1
            if rng.random() < 0.35:  # parameter-only chain link
                ar, f = pick_fn(3, 0)
                args = [rng.choice(static_pool) for _ in range(ar)]
                static_pool.append(name)
            else:
                ar, f = pick_fn(4, 0)
                args = pick_args(ar)
                if has_data and rng.random() < 0.3:
                    f = fl.dsum2
                    args = [rng.choice(pool), "dat0"]
                if all(a in static_pool for a in args):
                    static_pool.append(name)
            comps.append({"kind": "derived", "name": name, "fn": fl.ref(f), "args": args})
            pool.append(name)
        elif r < 0.9 or not (surrogates and rich):
            name = f"v{k_r}"
            k_r += 1
            ar, f = pick_fn(4, 0)
            tv = rng.sample(variables, rng.randint(1, min(3, len(variables))))
            comps.append(
                {"kind": "reaction", "name": name, "fn": fl.ref(f), "args": pick_args(ar), "stoich": {v: coef() for v in tv}}
            )
            pool.append(name)
            rx_names.append(name)
        else:
            name = f"s{k_s}"
            (n_in, n_out), fs = rng.choice(sorted(fl.SURROGATE.items()))
            outs = [f"s{k_s}o{j}" for j in range(n_out)]
            k_s += 1
            st = {}
            for o in outs:
                if rng.random() < 0.6:
                    tv = rng.sample(variables, rng.randint(1, min(2, len(variables))))
                    st[o] = {v: coef() for v in tv}
            comps.append(
                {"kind": "surrogate", "name": name, "fn": fl.ref(fs[0]), "args": pick_args(n_in), "outputs": outs, "stoich": st}
            )
            pool.extend(outs)
    for v in late_vars:
        comps.append({"kind": "variable", "name": v, "value": rnd_val(rng)})
        pool.append(v)
    if rich and rng.random() < 0.4:
        for j in range(rng.randint(1, 2)):
            ar, f = pick_fn(3, 1)
            comps.append({"kind": "readout", "name": f"ro{j}", "fn": fl.ref(f), "args": pick_args(ar)})
    return {"components": comps}


def shuffled(spec: dict, rng) -> dict:  # noqa: ANN001
    s = copy.deepcopy(spec)
    rng.shuffle(s["components"])
    return s


def random_state(ref: Ref, rng) -> dict[str, float]:  # noqa: ANN001
    return {v: rnd_val(rng, 0.1, 3.0) for v in ref.variables}


def shape_sig(spec: dict) -> str:
    """Shape signature: kinds, arities, coefficient kinds, dependency pattern."""
    from mon.core import sha

    prov = {}
    for c in spec["components"]:
        if c["kind"] == "surrogate":
            for o in c["outputs"]:
                prov[o] = "so"
        else:
            prov[c["name"]] = c["kind"][0] + ("i" if "ia" in c else "")
    items = []
    for c in sorted(spec["components"], key=lambda c: c["name"]):
        args = c.get("args") or (c.get("ia", {}).get("args") if "ia" in c else []) or []
        ck = []
        for st in ([c["stoich"]] if c["kind"] == "reaction" else list(c.get("stoich", {}).values())):
            for v in st.values():
                ck.append("n" if isinstance(v, (int, float)) else "s" if isinstance(v, str) else "c")
        items.append((c["kind"], [prov.get(a, "t") for a in args], sorted(ck)))
    return sha(items)
