"""Generator of SBML L3V2 documents through the libsbml API (C17 workload)."""

from __future__ import annotations

import libsbml as L

HOSTILE_IDS = ["lambda", "in", "is", "class", "None", "abs", "math", "exp", "_x", "class_", "def", "np", "pow", "time_", "Model", "E", "I", "S", "N", "beta", "gamma"]


def _math(s: str):  # noqa: ANN202
    n = L.parseL3Formula(s)
    if n is None:
        raise ValueError(f"cannot parse {s!r}: {L.getLastParseL3Error()}")
    return n


def gen_document(rng, path: str, *, hostile_ids: bool = False, stem_marker: float | None = None) -> dict:  # noqa: ANN001
    """Write a random document; returns a description (ids, features)."""
    feats: set[str] = set()
    pool = HOSTILE_IDS[:]
    rng.shuffle(pool)

    def ident(base: str) -> str:
        r = rng.random()  # always drawn, so the plain-identifier twin has the same structure
        if hostile_ids and pool and r < 0.45:
            feats.add("hostile_identifier")
            return pool.pop()
        return base

    doc = L.SBMLDocument(3, 2)
    m = doc.createModel()
    m.setId("gen")
    comps = []
    for i in range(rng.randint(1, 2)):
        c = m.createCompartment()
        cid = ident(f"c{i}")
        c.setId(cid)
        c.setConstant(True)
        c.setSize(rng.choice([0.5, 2.0, 4.0, 1.0]) if stem_marker is None else 2.0)
        c.setSpatialDimensions(3)
        comps.append(cid)
    if any(m.getCompartment(i).getSize() != 1.0 for i in range(len(comps))):
        feats.add("compartment_size_not_1")
    species = []
    for i in range(rng.randint(2, 4)):
        s = m.createSpecies()
        sid = ident(f"S{i}x")
        s.setId(sid)
        s.setCompartment(rng.choice(comps))
        s.setConstant(False)
        s.setBoundaryCondition(False)
        hosu = rng.random() < 0.3
        s.setHasOnlySubstanceUnits(hosu)
        val = round(rng.uniform(0.5, 3.0), 3)
        if rng.random() < 0.5:
            s.setInitialAmount(val)
            feats.add("initial_amount")
        else:
            s.setInitialConcentration(val)
        if hosu:
            feats.add("has_only_substance_units")
        species.append(sid)
    if rng.random() < 0.25:
        s = m.createSpecies()
        s.setId("Sb")
        s.setCompartment(comps[0])
        s.setConstant(False)
        s.setBoundaryCondition(True)
        s.setHasOnlySubstanceUnits(False)
        s.setInitialConcentration(1.5)
        feats.add("boundary_species")
        boundary = ["Sb"]
    else:
        boundary = []
    params = []
    for i in range(rng.randint(2, 4)):
        p = m.createParameter()
        pid = ident(f"k{i}")
        p.setId(pid)
        p.setConstant(True)
        p.setValue(round(rng.uniform(0.3, 2.0), 3) if stem_marker is None or i else stem_marker)
        params.append(pid)
    if stem_marker is None and rng.random() < 0.3:
        # constants of other magnitudes (per-molecule rate constants, 1/N_A, large capacities); each is used by one mass-action reaction
        p = m.createParameter()
        p.setId("ktiny")
        p.setConstant(True)
        p.setValue(rng.choice([2.5e-17, 1.66e-24, 3.3e-13, 4.5678912e-7, 1e6, 6.022e23]))
        feats.add("parameter_of_unusual_magnitude")
        unusual = "ktiny"
    else:
        unusual = None
    # function definitions (argument order deliberately not alphabetical)
    fds = []
    if rng.random() < 0.7:
        fd = m.createFunctionDefinition()
        fd.setId("fmm")  # function ids stay plain: the L3 formula parser reserves lambda/pow/exp/abs
        fd.setMath(_math("lambda(s, vmax, km, vmax * s / (km + s))"))
        fds.append((fd.getId(), 3))
        feats.add("function_definition")
        if rng.random() < 0.5:
            fd2 = m.createFunctionDefinition()
            fd2.setId("fnest")
            fd2.setMath(_math(f"lambda(z, a, {fds[0][0]}(z, a, 1.5) + a * 0.5)"))
            fds.append((fd2.getId(), 2))
            feats.add("nested_function_definition")
    # assignment rules (chained), on non-constant parameters
    rules = []
    if rng.random() < 0.7:
        p = m.createParameter()
        rid = ident("r0")
        p.setId(rid)
        p.setConstant(False)
        r = m.createAssignmentRule()
        r.setVariable(rid)
        r.setMath(_math(f"{rng.choice(params)} * {rng.choice(species)} + 0.25"))
        rules.append(rid)
        feats.add("assignment_rule")
        if rng.random() < 0.5:
            p = m.createParameter()
            rid2 = ident("r1")
            p.setId(rid2)
            p.setConstant(False)
            r = m.createAssignmentRule()
            r.setVariable(rid2)
            r.setMath(_math(f"{rid} / (1 + {rng.choice(params)})"))
            rules.append(rid2)
            feats.add("chained_rule")
    # initial assignments on a parameter and on a species
    if rng.random() < 0.4:
        p = m.createParameter()
        pid = ident("kia")
        p.setId(pid)
        p.setConstant(True)
        stale = rng.random() < 0.5
        if stale:
            p.setValue(round(rng.uniform(5.0, 9.0), 3))  # a value attribute that the initial assignment overrides
            feats.add("initial_assignment_overrides_value_attribute")
        base_formula = f"{rng.choice(params)} * 2 + 0.5"
        chained = rng.random() < 0.5
        if chained:
            # a second assignment that depends on the first; the order of listOfInitialAssignments is free
            p2 = m.createParameter()
            p2.setId("kia2")
            p2.setConstant(True)
            if rng.random() < 0.5:
                p2.setValue(0.125)
            first = rng.random() < 0.5
            if first:
                ia2 = m.createInitialAssignment()
                ia2.setSymbol("kia2")
                ia2.setMath(_math(f"{pid} + 1.5"))
                feats.add("dependent_initial_assignment_listed_first")
        ia = m.createInitialAssignment()
        ia.setSymbol(pid)
        ia.setMath(_math(base_formula))
        if chained and not first:
            ia2 = m.createInitialAssignment()
            ia2.setSymbol("kia2")
            ia2.setMath(_math(f"{pid} + 1.5"))
        params.append(pid)
        if chained:
            params.append("kia2")
            feats.add("chained_initial_assignments")
        feats.add("initial_assignment_parameter")
    if rng.random() < 0.3:
        tgt = rng.choice(species)
        sp = m.getSpecies(tgt)
        sp.unsetInitialAmount()
        sp.unsetInitialConcentration()
        ia = m.createInitialAssignment()
        ia.setSymbol(tgt)
        ia.setMath(_math(f"{rng.choice(params)} + 1.25"))
        feats.add("initial_assignment_species")
    # reactions
    nrx = rng.randint(1, 3)
    for j in range(nrx):
        rx = m.createReaction()
        rx.setId(ident(f"v{j}"))
        rx.setReversible(False)
        subs = rng.sample(species, rng.randint(1, min(2, len(species))))
        prods = [s for s in rng.sample(species, rng.randint(0, min(2, len(species)))) if s not in subs]
        for s in subs:
            sr = rx.createReactant()
            sr.setSpecies(s)
            sr.setConstant(True)
            st = rng.choice([1, 1, 2, 0.5])
            sr.setStoichiometry(st)
            if st == 0.5:
                feats.add("fractional_stoichiometry")
        for s in prods:
            sr = rx.createProduct()
            sr.setSpecies(s)
            if rng.random() < 0.12:
                # a coefficient that is a quantity of its own: it starts at a value (attribute, or initial assignment) and
                # follows a rate rule afterwards
                srid = f"sq_{rx.getId()}_{s}"
                sr.setId(srid)
                sr.setConstant(False)
                sr.setStoichiometry(rng.choice([1.5, 2.0, 0.75]))
                if rng.random() < 0.6:
                    ia_ = m.createInitialAssignment()
                    ia_.setSymbol(srid)
                    ia_.setMath(_math(f"1.5 * {rng.choice(params)}"))
                    feats.add("initial_assignment_on_a_coefficient_under_a_rate_rule")
                rr = m.createRateRule()
                rr.setVariable(srid)
                rr.setMath(_math(rng.choice(["0.25", f"0.1 * {rng.choice(params)}"])))
                feats.add("coefficient_under_a_rate_rule")
            elif rng.random() < 0.25:
                # rule-defined stoichiometry
                srid = f"sr_{rx.getId()}_{s}"
                sr.setId(srid)
                sr.setConstant(False)
                rr = m.createAssignmentRule()
                rr.setVariable(srid)
                if rng.random() < 0.5:
                    rr.setMath(_math(f"{rng.choice(params)} + 0.5"))
                else:
                    # a coefficient that follows the state (the species may take part in other reactions with constant coefficients)
                    rr.setMath(_math(f"0.5 * {rng.choice(species)} + {rng.choice(params)}"))
                    feats.add("state_dependent_stoichiometry")
                feats.add("rule_defined_stoichiometry")
            else:
                sr.setConstant(True)
                st_p = rng.choice([1, 1, 2, 1.5])
                if rng.random() < 0.12:
                    # a trace by-product: a coefficient far below one is a coefficient all the same
                    st_p = rng.choice([2.5e-10, 7.5e-11])
                    feats.add("stoichiometry_far_below_one")
                sr.setStoichiometry(st_p)
        if boundary and rng.random() < 0.5:
            sr = rx.createProduct()
            sr.setSpecies("Sb")
            sr.setConstant(True)
            sr.setStoichiometry(1)
        kl = rx.createKineticLaw()
        s0 = subs[0]
        k = rng.choice(params)
        kind = rng.choice(["ma", "fd", "piecewise", "power", "transcendental", "rule", "local", "time", "power_tower", "real_exponents"])
        if unusual is not None and j == 0:
            kind = "unusual_magnitude"
        if kind == "fd" and fds:
            name, ar = rng.choice(fds)
            formula = f"{name}({s0}, {k}, {rng.choice(params)})" if ar == 3 else f"{name}({s0}, {k})"
        elif kind == "piecewise":
            formula = f"piecewise({k} * {s0}, {s0} > 1.2, {k} * {s0}^2)"
            feats.add("piecewise")
        elif kind == "power":
            formula = f"{k} * {s0}^2 / (1 + {s0}^1.5)"
            feats.add("power")
        elif kind == "power_tower" and len(species) >= 2:
            # a power of a power whose inner base changes sign over the states: ((a - b)^2)^0.5 is |a - b|, not a - b
            other = rng.choice([x for x in species if x != s0])
            if rng.random() < 0.5:
                if m.getFunctionDefinition("fsq") is None:
                    fdq = m.createFunctionDefinition()
                    fdq.setId("fsq")
                    fdq.setMath(_math("lambda(a, b, (a - b)^2)"))
                formula = f"{k} * fsq({s0}, {other})^0.5"
            else:
                formula = f"{k} * (({s0} - {other})^2)^0.5 + 0.125 * (({other} - 1.2)^2)^1.5"
            feats.add("power_of_a_power_with_sign_changing_base")
        elif kind == "unusual_magnitude":
            formula = f"{unusual} * {s0}" + (f" * {subs[1]}" if len(subs) > 1 else "")
        elif kind == "real_exponents":
            # kinetic orders written as real numbers, including the order 1.0, in the middle of a product
            other = rng.choice(species)
            formula = rng.choice([f"{s0}^1.0 * {other} * {k}", f"{k} * {s0}^1.0 * {other}^2.0", f"{s0}^1.0 * {k} / (1.0 * {other} + 1.0)", f"1.0 * {s0}^0.5 * {other}^1.0 * {k}"])
            feats.add("real_valued_kinetic_orders")
        elif kind == "transcendental":
            formula = f"{k} * exp(-{s0}) + ln(1 + {s0}) * 0.1 + sqrt({s0})"
            feats.add("transcendental")
        elif kind == "rule" and rules:
            formula = f"{rng.choice(rules)} * {s0}"
        elif kind == "local":
            lp = kl.createLocalParameter()
            lp.setId("kloc")
            lp.setValue(0.75)
            formula = f"kloc * {s0} * {k}"
            feats.add("local_parameter")
        elif kind == "time":
            formula = f"{k} * {s0} * (1 + 0.1 * time)"
            feats.add("time")
        else:
            formula = f"{k} * {s0}" + (f" * {subs[1]}" if len(subs) > 1 else "")
        # multiply by the compartment as many real models do
        if rng.random() < 0.4:
            formula = f"{m.getSpecies(s0).getCompartment()} * ({formula})"
        kl.setMath(_math(formula))
    # legal ids that equal the helper names an importer may derive ('init_<symbol>', '<reaction>_stoich_<species>')
    if rng.random() < 0.35:
        cands = [f"init_{m.getInitialAssignment(i).getSymbol()}" for i in range(m.getNumInitialAssignments())]
        for i in range(m.getNumReactions()):
            rx = m.getReaction(i)
            for lst in (rx.getListOfReactants(), rx.getListOfProducts()):
                for j in range(lst.size()):
                    cands.append(f"{rx.getId()}_stoich_{lst.get(j).getSpecies()}")
        for cid in rng.sample(cands, min(2, len(cands))):
            if m.getElementBySId(cid) is None:
                p = m.createParameter()
                p.setId(cid)
                p.setConstant(False)
                r = m.createAssignmentRule()
                r.setVariable(cid)
                r.setMath(_math(f"{rng.choice(params)} * 3 + 1.125"))
                rules.append(cid)
                feats.add("helper_name_collision")
    ok = L.writeSBMLToFile(doc, path)
    if not ok:
        raise RuntimeError("libsbml could not write the document")
    return {"features": sorted(feats), "species": species + boundary, "parameters": params, "rules": rules}


def twin_without_species_initial_assignments(src: str, dst: str) -> int:
    """Replace every initial assignment on a species by the explicit initial value it prescribes."""
    from mon.sbml_interp import Doc

    D = Doc(src)
    doc = L.readSBMLFromFile(src)
    m = doc.getModel()
    n = 0
    for sid in list(D.ias):
        if sid in D.species:
            v = D.value(sid, None, 0.0, initial=True)
            sp = m.getSpecies(sid)
            if sp.getHasOnlySubstanceUnits():
                sp.setInitialAmount(v)
            else:
                sp.setInitialConcentration(v)
            m.removeInitialAssignment(sid)
            n += 1
    L.writeSBMLToFile(doc, dst)
    return n


def twin_with_uniform_declarations(src: str, dst: str) -> int:
    """Declare every species that appears as a concentration in math by its initial concentration."""
    from mon.sbml_interp import Doc

    D = Doc(src)
    doc = L.readSBMLFromFile(src)
    m = doc.getModel()
    n = 0
    for sid, sp0 in D.species.items():
        sp = m.getSpecies(sid)
        if sp.isSetInitialAmount() and not sp.getHasOnlySubstanceUnits():
            amt = sp.getInitialAmount()
            sp.unsetInitialAmount()
            sp.setInitialConcentration(amt / D.size_of(sid))
            n += 1
    L.writeSBMLToFile(doc, dst)
    return n
