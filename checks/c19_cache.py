"""C19 — result caching is transparent and survives interruption.

Fault enumeration: a forked child runs the real parallelise(..., cache=Cache(d))
(or a real scan.time_course(..., cache=...)) with a failpoint armed — a
sys.monitoring LINE event that os._exit()s at the j-th execution of a given
line of _load_or_run / the cache's save function, or an RLIMIT_FSIZE byte limit
that makes the kernel kill the writer when the result file reaches exactly b
bytes.  After the crash the directory is listed, a fault-free rerun (another
forked child) must complete and return the cache-free results for every key,
and a third run must return them again without recomputing anything.
"""

from __future__ import annotations

import os
import pickle
import shutil
import tempfile
import time
import traceback

import numpy as np
import pandas as pd

from mon import cachefn, core, failpoints

LEVEL = "fault_enumeration"
RULE = (
    "crash points = every executable line of parallel._load_or_run and of the cache's save function x every key "
    "index (process killed at the j-th execution of that line), and every byte size 0..size-1 of a result file "
    "(kernel kills the writer at that size; quick tier: stride + first/last 8), for small tuple payloads, a larger "
    "dict payload and real Simulation results of scan.time_course, sequential and parallel (2-3 pebble workers, "
    "kill inside a worker); plus partially filled caches - every proper non-empty subset of 4 keys present before the "
    "full run, for parallelise, scan.time_course and scan.steady_state (positional row alignment). Results are compared "
    "as ordered lists with the cache-free run. Same-process histories (run, repeat from disk, caller edits the returned "
    "objects, repeat; directory emptied and refilled by another computation over the same keys, repeated sequentially "
    "and with workers) are compared run by run with cache-free runs. non-trivial = the failpoint fired (the caching run really died) or the pre-existing cache is not a prefix of the keys; distinct = crash point id"
)
ASSUMPTIONS = [
    "process death at Python line boundaries and at file byte boundaries (not arbitrary machine instructions); page-cache loss is not modelled",
    "oracle = the cache-free run of the same inputs; recomputation is observed through an O_APPEND call log written by the mapped function",
]
MIN_NONTRIVIAL = {"quick": 40, "thorough": 300}
WORKERS = {"quick": 16, "thorough": 16}
CASE_TIMEOUT = 300


def _save_fn():  # noqa: ANN202
    from mxlpy.parallel import Cache

    return Cache().save_fn


def gen_cases(tier: str, seed: int) -> list[dict]:
    import mxlpy.parallel as par

    lines_lr = failpoints.executable_lines(par._load_or_run)  # noqa: SLF001
    lines_sv = failpoints.executable_lines(_save_fn())
    cases: list[dict] = [{"payload": "small", "nkeys": 3, "workers": 0, "fp": {"kind": "none"}},
                         {"payload": "scan", "nkeys": 3, "workers": 0, "fp": {"kind": "none"}},
                         {"payload": "small", "nkeys": 3, "workers": 2, "fp": {"kind": "none"}}]
    nkeys = 3 if tier == "quick" else 4
    # line failpoints, sequential: every line x every hit index
    for func, lines in (("load_or_run", lines_lr), ("save", lines_sv)):
        for ln in lines:
            for hit in range(1, nkeys + 1):
                cases.append({"payload": "small", "nkeys": nkeys, "workers": 0, "fp": {"kind": "line", "func": func, "line": ln, "hit": hit}})
    # line failpoints inside pebble workers
    for func, lines in (("load_or_run", lines_lr), ("save", lines_sv)):
        for ln in lines:
            hits = [1] if tier == "quick" else [1, 2]
            for hit in hits:
                cases.append({"payload": "small", "nkeys": 4, "workers": 2, "fp": {"kind": "line", "func": func, "line": ln, "hit": hit}})
    # byte failpoints: size of the pickles is measured in the case itself; enumerate generously, cases beyond the size are trivial
    size_small = len(pickle.dumps(cachefn.small(2)))
    size_medium = len(pickle.dumps(cachefn.medium(2)))
    if tier == "quick":
        bs = sorted(set(list(range(0, 8)) + list(range(8, size_small, 6)) + list(range(max(0, size_small - 8), size_small + 1))))
        bm = sorted(set([0, 1, 17, size_medium // 2, size_medium - 1]))
    else:
        bs = list(range(0, size_small + 2))
        bm = list(range(0, size_medium + 1, 16)) + [size_medium - 1]
    for b in bs:
        for hit in ([1, nkeys] if tier != "quick" else [2]):
            cases.append({"payload": "small", "nkeys": nkeys, "workers": 0, "fp": {"kind": "byte", "hit": hit, "bytes": b}})
    for b in bm:
        cases.append({"payload": "medium", "nkeys": 2, "workers": 0, "fp": {"kind": "byte", "hit": 1, "bytes": b}})
    for b in (bs[::4] if tier == "quick" else bs[::2]):
        cases.append({"payload": "small", "nkeys": 4, "workers": 3, "fp": {"kind": "byte", "hit": 1, "bytes": b}})
    # real scan results
    scan_bytes = [0, 1, 100, 1000, 3000] if tier == "quick" else list(range(0, 6000, 150))
    for b in scan_bytes:
        cases.append({"payload": "scan", "nkeys": 3, "workers": 0, "fp": {"kind": "byte", "hit": 2, "bytes": b}})
    for ln in lines_sv + lines_lr[-3:]:
        cases.append({"payload": "scan", "nkeys": 3, "workers": 0, "fp": {"kind": "line", "func": "save" if ln in lines_sv else "load_or_run", "line": ln, "hit": 2}})
        cases.append({"payload": "scan", "nkeys": 3, "workers": 2, "fp": {"kind": "line", "func": "save" if ln in lines_sv else "load_or_run", "line": ln, "hit": 1}})
    # partially filled caches: what a killed parallel run (or a run over fewer keys) leaves behind - every proper non-empty subset of the keys
    import itertools

    for r in range(1, 4):
        for sub in itertools.combinations(range(4), r):
            for w in ((0, 2) if tier != "quick" or len(sub) != 2 else (0,)):
                cases.append({"payload": "small", "nkeys": 4, "workers": w, "fp": {"kind": "subset", "subset": list(sub)}})
    for sub in ([1, 3], [3], [0, 2], [1, 2, 3]):
        for pl in ("scan_ss", "scan"):
            cases.append({"payload": pl, "nkeys": 4, "workers": 0, "fp": {"kind": "subset", "subset": sub}})
    cases.append({"payload": "scan_ss", "nkeys": 4, "workers": 2, "fp": {"kind": "subset", "subset": [1, 3]}})
    cases.append({"payload": "scan_ss", "nkeys": 3, "workers": 0, "fp": {"kind": "none"}})
    # every public routine that accepts cache= (found by signature, so a new one is picked up), sequential-ish and parallel
    for fe in cache_frontends():
        for w in (1, 2):
            cases.append({"payload": f"frontend:{fe}", "nkeys": 3, "workers": w, "fp": {"kind": "frontend"}})
    for nk in (2, 3, 4):
        for w in (0, 2):
            cases.append({"payload": "small", "nkeys": nk, "workers": w, "fp": {"kind": "same_process"}})
    # a sequential run interrupted (KeyboardInterrupt / an error) at a line of the save function or of the load-or-run step,
    # in a process that lives on and runs again (an interrupted notebook cell that is executed again)
    for func, lines in (("save", lines_sv), ("load_or_run", lines_lr)):
        for ln in lines:
            for hit in ((2,) if tier == "quick" else (1, 2, 3)):
                cases.append({"payload": "small", "nkeys": 3, "workers": 0, "fp": {"kind": "interrupt", "func": func, "line": ln, "hit": hit, "exc": "KeyboardInterrupt" if (ln + hit) % 2 else "OSError"}})
    # results that are false in a boolean context (None, 0, "", [], False, 0.0, {}) are results
    for w in (0, 2):
        cases.append({"payload": "falsy", "nkeys": 8, "workers": w, "fp": {"kind": "none"}})
    cases.append({"payload": "falsy", "nkeys": 8, "workers": 0, "fp": {"kind": "subset", "subset": [0, 3, 5]}})
    # two caching runs on one cache directory, the second one running while the first is held at a line of the save function
    for ln in lines_sv:
        cases.append({"payload": "small", "nkeys": 2, "workers": 0, "fp": {"kind": "concurrent", "func": "save", "line": ln, "hit": 1}})
    for ln in lines_lr[-3:]:
        cases.append({"payload": "small", "nkeys": 2, "workers": 0, "fp": {"kind": "concurrent", "func": "load_or_run", "line": ln, "hit": 2}})
    for kt in ("float_fine_steps", "float_large", "numpy_float", "int", "tuple", "negative_and_small", "equal_but_distinct"):
        nk = 6 if kt == "equal_but_distinct" else 4
        for w in (0, 2):
            cases.append({"payload": f"keys:{kt}", "nkeys": nk, "workers": w, "fp": {"kind": "none"}})
        cases.append({"payload": f"keys:{kt}", "nkeys": nk, "workers": 0, "fp": {"kind": "subset", "subset": [1, 3]}})
    for i, c in enumerate(cases):
        c["seed"] = f"{seed}:C19:{i}"
    return cases


# --------------------------------------------------------------------------


def _scan_model():  # noqa: ANN202
    from mon import refmodel as rm
    from mon.linmodel import LinNet

    net = LinNet(["x0", "x1"], [
        {"name": "vin", "k": "k0", "sub": None, "stoich": {"x0": 1}},
        {"name": "v0", "k": "k1", "sub": "x0", "stoich": {"x0": -1, "x1": 1}},
        {"name": "vout", "k": "k2", "sub": "x1", "stoich": {"x1": -1}},
    ], {"k0": 1.0, "k1": 0.75, "k2": 0.5}, {"x0": 1.0, "x1": 0.25})
    return rm.build(net.spec())


def run_workload(payload: str, nkeys: int, cache_dir: str | None, workers: int, only: list[int] | None = None):  # noqa: ANN201
    """The real caching run. Returns the results as an ordered list of (key, comparable result): the order in which
    results come back is part of "the same results" (scans align them with their input rows by position).
    `only` restricts the run to a subset of the keys (used to leave a partially filled cache behind)."""
    from mxlpy.parallel import Cache, parallelise

    cache = None if cache_dir is None else Cache(tmp_dir=__import__("pathlib").Path(cache_dir))
    idx = list(range(nkeys)) if only is None else list(only)
    if payload in ("small", "medium", "small_alt", "falsy"):
        fn = {"small": cachefn.small, "medium": cachefn.medium, "small_alt": cachefn.small_alt, "falsy": cachefn.falsy}[payload]
        res = parallelise(fn, [(f"k{i}", i + 2) for i in idx], cache=cache, parallel=workers > 0,
                          max_workers=workers or None, disable_tqdm=True)
        return [(k, v) for k, v in res]
    if payload.startswith("keys:"):
        # other key types than strings; the keys are distinct objects and must stay distinct results
        kinds = {
            "float_fine_steps": [1.0 + i * 1e-7 for i in idx],
            "float_large": [1e6 + float(i) for i in idx],
            "numpy_float": [np.float64(2.0) + i * 2e-7 for i in idx],
            "int": [10 + i for i in idx],
            "tuple": [(i, 0.5 + i * 1e-7) for i in idx],
            "negative_and_small": [(-1.0) ** i * 1e-9 * (i + 1) for i in idx],
            # distinct keys (each has its own input and its own file name) that compare equal to one another
            "equal_but_distinct": [[0, False, 1, True, 1.0, 0.0][i % 6] for i in idx],
        }
        keys = kinds[payload.split(":", 1)[1]]
        res = parallelise(cachefn.small, [(k, i + 2) for k, i in zip(keys, idx)], cache=cache, parallel=workers > 0,
                          max_workers=workers or None, disable_tqdm=True)
        return [(repr(k), v) for k, v in res]
    from mxlpy import scan

    import multiprocessing

    old = multiprocessing.cpu_count
    if workers:
        multiprocessing.cpu_count = lambda: workers
    table = pd.DataFrame({"k1": [0.5 + 0.25 * i for i in idx]}, index=idx)
    try:
        if payload == "scan_ss":
            out = scan.steady_state(_scan_model(), to_scan=table, parallel=workers > 0, cache=cache)
        else:
            out = scan.time_course(_scan_model(), to_scan=table, time_points=np.linspace(0, 2, 9), parallel=workers > 0, cache=cache)
    finally:
        multiprocessing.cpu_count = old
    if payload == "scan_ss":
        # the public tables: one row per input row, labelled by the scanned value
        v, f = out.variables, out.fluxes
        return [(str(v.index[i]), (v.iloc[i].round(9).to_dict(), f.iloc[i].round(9).to_dict())) for i in range(len(v))]
    return [(str(k), (v.variables.round(12).to_dict(), v.fluxes.round(12).to_dict())) for k, v in out.raw_results.items()]


def _child(fn) -> tuple[int, int | None]:  # noqa: ANN001
    """Run fn() in a forked child. Returns (exit_status, signal)."""
    pid = os.fork()
    if pid == 0:
        code = 0
        try:
            devnull = os.open(os.devnull, os.O_WRONLY)
            os.dup2(devnull, 2)
            fn()
        except BaseException:  # noqa: BLE001
            code = 3
            try:
                with open(os.environ["VERIF_CHILD_ERR"], "w") as fh:
                    fh.write(traceback.format_exc())
            except Exception:  # noqa: BLE001, S110
                pass
        finally:
            os._exit(code)
    deadline = time.time() + 120
    while True:
        wpid, status = os.waitpid(pid, os.WNOHANG)
        if wpid == pid:
            break
        if time.time() > deadline:
            os.kill(pid, 9)
            os.waitpid(pid, 0)
            return (-1, None)
        time.sleep(0.005)
    if os.WIFSIGNALED(status):
        return (128 + os.WTERMSIG(status), os.WTERMSIG(status))
    return (os.WEXITSTATUS(status), None)


def run_case(case: dict) -> dict:
    import mxlpy.parallel as par

    fp = case["fp"]
    payload, nkeys, workers = case["payload"], case["nkeys"], case["workers"]
    root = tempfile.mkdtemp(prefix="c19-")
    cdir = os.path.join(root, "cache")
    calllog = os.path.join(root, "calls.log")
    errf = os.path.join(root, "child.err")
    os.environ["VERIF_CHILD_ERR"] = errf
    viols: list[dict] = []
    counters: dict[str, int] = {f"payload:{payload}": 1, f"mode:{'parallel' if workers else 'sequential'}": 1, f"fp:{fp['kind']}": 1}
    ident = {k: v for k, v in case.items() if k not in ("seed", "idx")}
    try:
        os.environ.pop("VERIF_CALLLOG", None)
        if fp["kind"] == "frontend":
            return _frontend(case, ident, root, cdir, calllog, counters)
        expected = run_workload(payload, nkeys, None, 0)  # cache-free oracle
        if fp["kind"] == "same_process":
            return _same_process_history(case, ident, root, cdir, expected, counters)
        if fp["kind"] == "concurrent":
            return _concurrent_runs(case, ident, root, cdir, counters)
        if fp["kind"] == "interrupt":
            return _interrupted_then_rerun(case, ident, root, cdir, expected, counters)
        os.environ["VERIF_CALLLOG"] = calllog

        # ---- run 1: caching run with the failpoint armed -------------------------
        def crash_run() -> None:
            if fp["kind"] == "line":
                target = par._load_or_run if fp["func"] == "load_or_run" else _save_fn()  # noqa: SLF001
                failpoints.arm_line_exit(target, fp["line"], fp["hit"])
            elif fp["kind"] == "byte":
                failpoints.arm_byte_kill(_save_fn(), fp["hit"], fp["bytes"])
            got = run_workload(payload, nkeys, cdir, workers, fp.get("subset"))
            with open(os.path.join(root, "run1.pkl"), "wb") as fh:
                pickle.dump(got, fh)

        st1, sig1 = _child(crash_run)
        if st1 == -1:
            return core.result(sig=core.sha(ident), nontrivial=False, counters=counters, info={"watchdog": "run1"}) | {"harness_error": "run 1 watchdog"}
        listing = sorted((f, os.path.getsize(os.path.join(cdir, f))) for f in os.listdir(cdir)) if os.path.isdir(cdir) else []
        died = st1 != 0
        counters["caching_run_died"] = int(died)
        counters[f"run1_status:{st1}"] = 1
        if not died:
            with open(os.path.join(root, "run1.pkl"), "rb") as fh:
                got1 = pickle.load(fh)  # noqa: S301
            exp1 = expected if fp["kind"] != "subset" else run_workload(payload, nkeys, None, 0, fp["subset"])
            if got1 != exp1:
                viols.append(core.viol("results with a cache differ from results without", None, case=ident, got=str(got1)[:300], expected=str(expected)[:300]))
        calls_after_1 = _calls(calllog)

        # ---- run 2: fault-free rerun ----------------------------------------------
        def rerun(tag: str):  # noqa: ANN202
            def f() -> None:
                got = run_workload(payload, nkeys, cdir, workers)
                with open(os.path.join(root, f"{tag}.pkl"), "wb") as fh:
                    pickle.dump(got, fh)
            return f

        st2, _ = _child(rerun("run2"))
        if st2 == -1:
            viols.append(core.viol("rerun after an interrupted caching run hangs", mech(case, listing), case=ident, post_crash_files=listing))
        elif st2 != 0:
            err = open(errf).read()[-500:] if os.path.exists(errf) else ""
            viols.append(core.viol("rerun after an interrupted caching run fails", mech(case, listing), case=ident, post_crash_files=listing, run1_status=st1, error=err))
        else:
            with open(os.path.join(root, "run2.pkl"), "rb") as fh:
                got2 = pickle.load(fh)  # noqa: S301
            if got2 != expected:
                if dict(got2) == dict(expected):
                    viols.append(core.viol("rerun over a partially filled cache returns the results in a different order than a run without cache", mech(case, listing),
                                           case=ident, got_order=[k for k, _ in got2], expected_order=[k for k, _ in expected], post_crash_files=listing))
                else:
                    bad = [k for k, v in expected if dict(got2).get(k) != v]
                    viols.append(core.viol("rerun after an interrupted caching run returns a wrong result", mech(case, listing), case=ident, keys=bad, post_crash_files=listing))
            counters["rerun_compared_keys"] = len(expected)
            calls_after_2 = _calls(calllog)
            # ---- run 3: everything must come from disk -----------------------------
            st3, _ = _child(rerun("run3"))
            if st3 != 0:
                viols.append(core.viol("repeated run on a complete cache fails", None, case=ident))
            else:
                with open(os.path.join(root, "run3.pkl"), "rb") as fh:
                    got3 = pickle.load(fh)  # noqa: S301
                if got3 != expected:
                    viols.append(core.viol("repeated run returns different results from disk", None, case=ident))
                recomputed = _calls(calllog)[len(calls_after_2):]
                if recomputed:
                    viols.append(core.viol("repeated run recomputed keys whose result file exists", None, case=ident, recomputed=recomputed))
                counters["third_run_checked"] = 1
            if fp["kind"] == "subset":
                redone = sorted(calls_after_2[len(calls_after_1):])
                want = sorted(str(i + 2) for i in range(nkeys) if i not in fp["subset"]) if payload in ("small", "medium", "falsy") or payload.startswith("keys:") else None
                if want is not None and redone != want:
                    viols.append(core.viol("rerun over a partially filled cache did not compute exactly the missing keys", None, case=ident, computed=redone, missing=want))
                counters["partial_cache_reruns"] = 1
            elif not died and len(calls_after_2) != len(calls_after_1):
                viols.append(core.viol("second run recomputed keys although the first run completed", None, case=ident, calls=calls_after_2[len(calls_after_1):]))
    finally:
        shutil.rmtree(root, ignore_errors=True)
    info = {"post_crash_files": listing, "run1_status": st1}
    if fp["kind"] == "subset":
        died = fp["subset"] != list(range(len(fp["subset"])))  # a cache that is not a prefix of the keys
        counters["partial_cache_not_a_prefix"] = int(died)
    return core.result(sig=core.sha(ident), nontrivial=died, violations=viols[:3], counters=counters,
                       sample={"case": ident, "post_crash_directory": listing, "run1_exit": st1} if died and case.get("idx", 0) % 25 == 0 else None, info=info)


def _run_keys(prefix: str, nkeys: int, cdir: str | None):  # noqa: ANN202
    from pathlib import Path

    from mxlpy.parallel import Cache, parallelise

    cache = None if cdir is None else Cache(tmp_dir=Path(cdir))
    return [(k, v) for k, v in parallelise(cachefn.small, [(f"{prefix}{i}", i + 2) for i in range(nkeys)], cache=cache, parallel=False, disable_tqdm=True)]


def _concurrent_runs(case: dict, ident: dict, root: str, cdir: str, counters: dict) -> dict:
    """Two caching runs over different keys share one cache directory; the second runs from start to end while the first is
    held at a line of the cache's save function / of _load_or_run (schedule point). Both must return the cache-free results,
    and a later run must find every key on disk."""
    import mxlpy.parallel as par

    fp = case["fp"]
    nkeys = case["nkeys"]
    reached, go = os.path.join(root, "reached"), os.path.join(root, "go")
    exp_a, exp_b = _run_keys("a", nkeys, None), _run_keys("b", nkeys, None)
    viols: list[dict] = []

    def job_a() -> None:
        target = par._load_or_run if fp["func"] == "load_or_run" else _save_fn()  # noqa: SLF001
        failpoints.arm_line_pause(target, fp["line"], fp["hit"], reached, go)
        with open(os.path.join(root, "a.pkl"), "wb") as fh:
            pickle.dump(_run_keys("a", nkeys, cdir), fh)

    def job_b() -> None:
        with open(os.path.join(root, "b.pkl"), "wb") as fh:
            pickle.dump(_run_keys("b", nkeys, cdir), fh)

    pid = os.fork()
    if pid == 0:
        code = 0
        try:
            devnull = os.open(os.devnull, os.O_WRONLY)
            os.dup2(devnull, 2)
            job_a()
        except BaseException:  # noqa: BLE001
            code = 3
            with open(os.path.join(root, "a.err"), "w") as fh:
                fh.write(traceback.format_exc())
        finally:
            os._exit(code)
    t0 = time.time()
    while not os.path.exists(reached) and time.time() - t0 < 20:
        if os.waitpid(pid, os.WNOHANG)[0] == pid:
            break
        time.sleep(0.01)
    held = os.path.exists(reached)
    counters["first_run_held_at_schedule_point"] = int(held)
    st_b, _ = _child(job_b)
    open(go, "w").close()
    try:
        _, status = os.waitpid(pid, 0)
        st_a = os.WEXITSTATUS(status) if os.WIFEXITED(status) else 128 + os.WTERMSIG(status)
    except ChildProcessError:
        st_a = 0
    if held:
        if st_a != 0:
            err = open(os.path.join(root, "a.err")).read()[-500:] if os.path.exists(os.path.join(root, "a.err")) else ""
            viols.append(core.viol("a caching run failed because another caching run used the same cache directory meanwhile", None, case=ident, status=st_a, error=err))
        elif pickle.load(open(os.path.join(root, "a.pkl"), "rb")) != exp_a:  # noqa: S301, SIM115
            viols.append(core.viol("a caching run returned wrong results while another run used the same cache directory", None, case=ident))
        if st_b != 0 or pickle.load(open(os.path.join(root, "b.pkl"), "rb")) != exp_b:  # noqa: S301, SIM115
            viols.append(core.viol("the second of two concurrent caching runs failed or returned wrong results", None, case=ident, status=st_b))
        if not viols:
            def again() -> None:
                with open(os.path.join(root, "again.pkl"), "wb") as fh:
                    pickle.dump((_run_keys("a", nkeys, cdir), _run_keys("b", nkeys, cdir)), fh)

            st_c, _ = _child(again)
            if st_c != 0 or pickle.load(open(os.path.join(root, "again.pkl"), "rb")) != (exp_a, exp_b):  # noqa: S301, SIM115
                viols.append(core.viol("rerun after two concurrent caching runs fails or returns wrong results", None, case=ident, status=st_c))
            counters["concurrent_runs_compared"] = 1
    return core.result(sig=core.sha(ident), nontrivial=held, violations=viols[:2], counters=counters)


def _same_process_history(case: dict, ident: dict, root: str, cdir: str, expected: list, counters: dict) -> dict:
    """Several cached runs inside ONE process (what a session does): run, repeat (from disk), edit the returned objects
    in place, repeat; then the directory is emptied and filled by another computation over the same keys, and repeated
    sequentially and with workers. Every run must return what a cache-free run of the same computation returns."""
    nkeys, workers = case["nkeys"], case["workers"]
    expected_alt = run_workload("small_alt", nkeys, None, 0)

    def history() -> None:
        out = {}
        out["first"] = run_workload("small", nkeys, cdir, 0)
        out["repeat"] = run_workload("small", nkeys, cdir, 0)
        for _k, v in out["repeat"]:
            v[3].append(-1.0)  # the caller edits what it got back
        out["repeat_after_caller_edited_results"] = run_workload("small", nkeys, cdir, workers)
        shutil.rmtree(cdir)
        out["other_computation_first"] = run_workload("small_alt", nkeys, cdir, 0)
        out["other_computation_repeat"] = run_workload("small_alt", nkeys, cdir, 0)
        out["other_computation_repeat_with_workers"] = run_workload("small_alt", nkeys, cdir, 2)
        for _k, v in out["repeat"]:
            v[3].pop()
        # one Cache object used for several runs while its directory is emptied / it is pointed somewhere else in between
        from pathlib import Path

        from mxlpy.parallel import Cache, parallelise

        cobj = Cache(tmp_dir=Path(cdir + "_obj"))
        inputs = [(f"k{i}", i + 2) for i in range(nkeys)]
        out["same_cache_object_first"] = [(k, v) for k, v in parallelise(cachefn.small, inputs, cache=cobj, parallel=False, disable_tqdm=True)]
        shutil.rmtree(cdir + "_obj", ignore_errors=True)
        out["same_cache_object_after_its_directory_was_removed"] = [(k, v) for k, v in parallelise(cachefn.small, inputs, cache=cobj, parallel=workers > 0, max_workers=workers or None, disable_tqdm=True)]
        cobj.tmp_dir = Path(cdir + "_obj2")
        out["same_cache_object_pointed_to_another_directory"] = [(k, v) for k, v in parallelise(cachefn.small, inputs, cache=cobj, parallel=False, disable_tqdm=True)]
        with open(os.path.join(root, "hist.pkl"), "wb") as fh:
            pickle.dump(out, fh)

    st, _ = _child(history)
    viols: list[dict] = []
    if st != 0:
        err = open(os.environ["VERIF_CHILD_ERR"]).read()[-500:] if os.path.exists(os.environ["VERIF_CHILD_ERR"]) else ""
        viols.append(core.viol("cached runs in one process fail", None, case=ident, status=st, error=err))
    else:
        with open(os.path.join(root, "hist.pkl"), "rb") as fh:
            out = pickle.load(fh)  # noqa: S301
        for step, got in out.items():
            want = expected_alt if step.startswith("other") else expected
            counters["same_process_runs_compared"] = counters.get("same_process_runs_compared", 0) + 1
            if got != want:
                viols.append(core.viol(f"cached run differs from a cache-free run of the same computation [{step}]", None, case=ident, step=step, got=str(got)[:300], expected=str(want)[:300]))
                break
    return core.result(sig=core.sha(ident), nontrivial=True, violations=viols[:2], counters=counters)


def _interrupted_then_rerun(case: dict, ident: dict, root: str, cdir: str, expected: list, counters: dict) -> dict:
    """A sequential caching run is interrupted by an exception raised at one line; the SAME process runs it again (and a
    third time). Both later runs must complete and equal a cache-free run; the third must not compute anything."""
    import mxlpy.parallel as par

    fp = case["fp"]
    nkeys = case["nkeys"]
    calllog = os.path.join(root, "calls.log")

    def history() -> None:
        target = par._load_or_run if fp["func"] == "load_or_run" else _save_fn()  # noqa: SLF001
        exc = KeyboardInterrupt if fp["exc"] == "KeyboardInterrupt" else OSError
        state = failpoints.arm_line_raise(target, fp["line"], fp["hit"], exc)
        out: dict = {}
        try:
            run_workload("small", nkeys, cdir, 0)
            out["interrupted"] = False
        except exc:
            out["interrupted"] = True
        state["armed"] = False  # only the first run is interrupted
        out["raised"] = state["raised"]
        out["left_behind"] = sorted(os.listdir(cdir)) if os.path.isdir(cdir) else []
        out["pid_in_names"] = str(os.getpid())
        out["rerun"] = run_workload("small", nkeys, cdir, 0)
        os.environ["VERIF_CALLLOG"] = calllog
        out["third"] = run_workload("small", nkeys, cdir, 0)
        with open(os.path.join(root, "hist.pkl"), "wb") as fh:
            pickle.dump(out, fh)

    st, _ = _child(history)
    viols: list[dict] = []
    if st != 0:
        err = open(os.environ["VERIF_CHILD_ERR"]).read()[-500:] if os.path.exists(os.environ["VERIF_CHILD_ERR"]) else ""
        viols.append(core.viol("a rerun in the process whose run was interrupted does not complete", None, case=ident, status=st, error=err))
        return core.result(sig=core.sha(ident), nontrivial=True, violations=viols, counters=counters)
    with open(os.path.join(root, "hist.pkl"), "rb") as fh:
        out = pickle.load(fh)  # noqa: S301
    if out["raised"]:
        counters["runs_interrupted_in_a_process_that_ran_again"] = 1
        if any(out["pid_in_names"] in n for n in out["left_behind"]):
            counters["interrupted_run_left_its_own_temporary_file_behind"] = 1
    for step in ("rerun", "third"):
        if out[step] != expected:
            viols.append(core.viol(f"run after an interrupted run differs from a cache-free run [{step}]", None, case=ident, got=str(out[step])[:300], expected=str(expected)[:300], left_behind=out["left_behind"]))
            break
    if not viols and _calls(calllog):
        viols.append(core.viol("a run over a complete cache computed something", None, case=ident, computed=_calls(calllog)[:5]))
    return core.result(sig=core.sha(ident), nontrivial=bool(out["raised"]), violations=viols[:2], counters=counters)


def cache_frontends() -> list[str]:
    """Public routines of mxlpy.scan and mxlpy.mc whose signature has a `cache` parameter."""
    import inspect

    from mxlpy import mc, scan

    out = []
    for mod in (scan, mc):
        for n, f in inspect.getmembers(mod, inspect.isfunction):
            if f.__module__ == mod.__name__ and not n.startswith("_") and "cache" in inspect.signature(f).parameters:
                out.append(f"{mod.__name__}.{n}")
    return sorted(out)


def _comparable(x):  # noqa: ANN001, ANN202
    if isinstance(x, (pd.DataFrame, pd.Series)):
        return ([str(i) for i in x.index], [str(c) for c in getattr(x, "columns", [])], np.asarray(x, dtype=float).round(10).tolist())
    return tuple(_comparable(getattr(x, a)) for a in ("variables", "fluxes") if hasattr(x, a))


def _call_frontend(name: str, cache, workers: int, logged: bool):  # noqa: ANN001, ANN202
    import importlib
    import inspect

    from mxlpy import make_protocol

    modname, fname = name.rsplit(".", 1)
    f = getattr(importlib.import_module(modname), fname)
    pars = inspect.signature(f).parameters
    draws = pd.DataFrame({"k1": [0.5, 0.75, 1.0]}, index=[3, 1, 2])
    kw: dict = {"cache": cache}
    if "mc_to_scan" in pars:
        kw["mc_to_scan"] = draws
        if fname == "scan_steady_state":
            kw["to_scan"] = pd.DataFrame({"k2": [0.6, 0.4]})
        elif "to_scan" in pars:
            kw["to_scan"] = ["x0", "x1"] if fname == "variable_elasticities" else ["k0", "k2"]
    else:
        kw["to_scan"] = draws
    if "variables" in pars:
        kw["variables"] = {"x0": 1.2, "x1": 0.7}
    if "protocol" in pars:
        kw["protocol"] = make_protocol([(1.0, {"k0": 1.0}), (1.5, {"k0": 2.0})])
    if "time_points" in pars:
        kw["time_points"] = np.linspace(0, 2, 5)
    if "max_workers" in pars:
        kw["max_workers"] = workers
    if "parallel" in pars:
        kw["parallel"] = workers > 1
    if "disable_tqdm" in pars:
        kw["disable_tqdm"] = True
    if logged and "worker" in pars:
        kw["worker"] = cachefn.LoggedWorker(modname, fname)
    return _comparable(f(_scan_model(), **kw)), len(draws), "worker" in pars


def _frontend(case: dict, ident: dict, root: str, cdir: str, calllog: str, counters: dict) -> dict:
    """Through every routine that takes cache=: the cached run equals the run without, leaves a non-empty result file per
    row, and a repeated run returns the same without computing (no worker call, no file rewritten)."""
    from mxlpy.parallel import Cache

    name, workers = case["payload"].split(":", 1)[1], case["workers"]
    viols: list[dict] = []
    os.environ["VERIF_CALLLOG"] = calllog
    plain, nrows, has_worker = _call_frontend(name, None, workers, logged=False)
    first, _, _ = _call_frontend(name, Cache(tmp_dir=__import__("pathlib").Path(cdir)), workers, logged=True)

    def listing() -> list:
        out = []
        for dp, _, fs in os.walk(cdir):
            out += [(os.path.relpath(os.path.join(dp, f), cdir), os.path.getsize(os.path.join(dp, f)), os.stat(os.path.join(dp, f)).st_mtime_ns) for f in fs]
        return sorted(out)

    files1, calls1 = listing(), _calls(calllog)
    if first != plain:
        viols.append(core.viol("results with a cache differ from results without", None, case=ident))
    stored = [f for f in files1 if f[1] > 0 and ".tmp" not in f[0]]
    if len(stored) < nrows:
        viols.append(core.viol("a completed caching run left fewer result files than rows", None, case=ident, files=[f[:2] for f in files1], rows=nrows))
    if has_worker and len(calls1) != nrows:
        viols.append(core.viol("first caching run did not compute every row exactly once", None, case=ident, calls=len(calls1), rows=nrows))
    second, _, _ = _call_frontend(name, Cache(tmp_dir=__import__("pathlib").Path(cdir)), workers, logged=True)
    files2, calls2 = listing(), _calls(calllog)
    if second != plain:
        viols.append(core.viol("repeated run returns different results from disk", None, case=ident))
    if len(calls2) != len(calls1):
        viols.append(core.viol("repeated run recomputed keys whose result file exists", None, case=ident, recomputed=calls2[len(calls1):]))
    if files2 != files1 and len(stored) >= nrows:
        viols.append(core.viol("repeated run rewrote or added result files although every row was stored", None, case=ident,
                               before=[f[:2] for f in files1], after=[f[:2] for f in files2]))
    counters["frontend_routines_run_twice_on_one_cache"] = 1
    counters[f"frontend:{name}"] = 1
    counters["frontend_result_files_seen"] = len(stored)
    counters["frontend_worker_calls_logged"] = len(calls2)
    shutil.rmtree(root, ignore_errors=True)
    return core.result(sig=core.sha(ident), nontrivial=True, violations=viols[:3], counters=counters, info={"frontend": name, "files": len(stored)})


def _calls(path: str) -> list[str]:
    return open(path).read().split() if os.path.exists(path) else []


def mech(case: dict, listing: list) -> str | None:
    return None


def finalize(results: list[dict], tier: str, counters) -> dict:  # noqa: ANN001
    inc = []
    if not counters.get("caching_run_died"):
        inc.append("no failpoint ever fired")
    for k in ("fp:line", "fp:byte", "mode:parallel", "payload:scan", "third_run_checked"):
        if not counters.get(k):
            inc.append(f"'{k}' never exercised")
    states = {}
    for r in results:
        for f, sz in r.get("info", {}).get("post_crash_files", []) or []:
            kind = "tmp" if ".tmp" in f else "final"
            states[f"{kind}:{'empty' if sz == 0 else 'nonempty'}"] = states.get(f"{kind}:{'empty' if sz == 0 else 'nonempty'}", 0) + 1
    by_kind = {}
    for r in results:
        c = r.get("case", {})
        k = f"{c.get('fp', {}).get('kind')}/{'parallel' if c.get('workers') else 'sequential'}/{c.get('payload')}"
        d = by_kind.setdefault(k, {"cases": 0, "died": 0})
        d["cases"] += 1
        d["died"] += int(bool(r.get("nontrivial")))
    return {"inconclusive": inc, "crash_points_by_kind": by_kind, "post_crash_file_states_seen": states,
            "exhaustive": tier == "thorough",
            "exhaustive_note": "thorough: every executable line x key index and every byte size of the small payload are enumerated; quick tier strides over bytes"}
