"""C08 — SBML export then import reproduces the model, or export fails.

Round-trip monitor: generated surrogate-free models whose rate laws / derived
functions are single-return expressions from a grammar are written with the
real sbml.write and read back with the real sbml.read (private HOME per
worker); every original name must exist in the re-read model with the same
initial value and, at random states, the same derivative / flux / derived
value.  An export that raises is always acceptable.
"""

from __future__ import annotations

import importlib
import os
import sys

import numpy as np
from pathlib import Path

from mon import core
from mon import refmodel as rm

LEVEL = "exploration"
RULE = (
    "models of 1..4 variables with rate laws / derived functions generated from a single-expression grammar "
    "(+ - * / **, unary minus, conditional expressions with < <= > >= == != and chained comparisons, math./np. functions "
    "inside and outside the exporter's tables, min/max/abs/pow, math.pi/math.e, nested user calls and multi-statement "
    "bodies which must raise), integer / fractional / negative / named / computed coefficients of both signs, initial "
    "assignments on variables and parameters, derived parameters and derived variables, names that need escaping. "
    "non-trivial = export succeeded and the model has >=1 hostile feature; distinct = model hash"
)
ASSUMPTIONS = [
    "oracle: the original model evaluated directly; extra components in the re-read model (compartment, *_amount helpers) are allowed",
    "outcomes: export raised (acceptable) / equal / different (violation) / read failed on a written file (violation)",
]
N = {"quick": 320, "thorough": 40000}
MIN_NONTRIVIAL = {"quick": 30, "thorough": 600}
CASE_TIMEOUT = 300


def gen_cases(tier: str, seed: int) -> list[dict]:
    n = max(4, int(N[tier] * float(os.environ.get("VERIF_SCALE", "1"))))
    return [{"seed": f"{seed}:C08:{i}"} for i in range(n)]


class ExprGen:
    def __init__(self, rng) -> None:  # noqa: ANN001
        self.rng = rng
        self.feats: set[str] = set()

    def atom(self, names: list[str]) -> str:
        r = self.rng.random()
        if r < 0.65:
            return self.rng.choice(names)
        if r < 0.87:
            return self.rng.choice(["0.5", "2.0", "1.5", "3", "1", "0.25"])
        if r < 0.9:
            return self.rng.choice(["0.5", "2.0", "1.5", "3", "1", "0.25", "1e3", "2.5e-1"])
        self.feats.add("math_constant")
        return self.rng.choice(["math.pi", "math.e", "np.pi"])

    def cond(self, names: list[str]) -> str:
        rng = self.rng
        if rng.random() < 0.3:
            self.feats.add("not")
            return f"not ({self._cond(names)})" if rng.random() < 0.5 else f"not {self._cond(names, simple=True)}"
        return self._cond(names)

    def _cond(self, names: list[str], simple: bool = False) -> str:
        rng = self.rng
        a, b = self.expr(names, 1), self.expr(names, 1)
        if simple or rng.random() < 0.3:
            # plain names against plain names / dyadic constants: on lattice states both sides are exactly equal now and then
            a, b = rng.choice(names), rng.choice([*names, "0.5", "1.0", "1.5", "2.0"])
            if rng.random() < 0.4:
                # a chain over plain operands whose links differ in strictness or direction
                self.feats.add("chained_compare")
                c = rng.choice([*names, "0.5", "1.0", "1.5", "2.0"])
                o1, o2 = rng.sample(["<", "<=", ">", ">="], 2)
                return f"{a} {o1} {b} {o2} {c}"
            return f"{a} {rng.choice(['<', '<=', '>', '>='])} {b}"
        r = rng.random()
        if r < 0.6:
            return f"{a} {rng.choice(['<', '<=', '>', '>='])} {b}"
        if r < 0.75:
            self.feats.add("eq_ne")
            return f"{rng.choice(names)} {rng.choice(['==', '!='])} {rng.choice([*names, '1.0'])}"
        self.feats.add("chained_compare")
        c = self.expr(names, 0)
        return f"{a} {rng.choice(['<', '<='])} {b} {rng.choice(['<', '<='])} {c}"

    def expr(self, names: list[str], depth: int = 2) -> str:
        rng = self.rng
        if depth <= 0 or rng.random() < 0.2:
            return self.atom(names)
        a, b = self.expr(names, depth - 1), self.expr(names, depth - 1)
        r = rng.random()
        if r < 0.18:
            return f"({a} + {b})"
        if r < 0.3:
            return f"({a} - {b})"
        if r < 0.48:
            return f"({a} * {b})"
        if r < 0.58:
            return f"({a} / (1.0 + {b}))"
        if r < 0.64:
            self.feats.add("pow")
            return f"({a} ** {rng.choice(['2', '0.5', '2.0'])})"
        if r < 0.68:
            return f"(-{a})"
        if r < 0.78:
            self.feats.add("ifexp")
            return f"({a} if {self.cond(names)} else {b})"
        if r < 0.88:
            f = rng.choice(["math.sqrt", "np.sqrt", "math.sin", "np.cos", "math.tanh", "math.log", "np.log10", "np.sinh", "abs", "np.abs"])
            self.feats.add("table_function")
            if f in ("math.sin", "np.cos"):
                # (bounded argument: the cosine of a sub-expression of 5e6 - sinh(1 + e*e) squared - is decided by the last
                # bits of that sub-expression, which no two correct evaluations share; seen in the thorough tier, seed 16)
                return f"{f}(1.0 + {a} / (1.0 + {a} * {a}))"
            return f"{f}(1.0 + {a} * {a})"
        if r < 0.94:
            f = rng.choice(["math.exp", "np.exp", "math.floor", "math.log2", "np.log1p", "math.expm1"])
            self.feats.add(f"function_outside_tables:{f.split('.')[1]}")
            return f"{f}({a} / (1.0 + {a} * {a}))"
        if r < 0.975:
            # the remaining names of the exporter's function tables, and forms with more arguments than the table's entry has
            f = rng.choice(["math.remainder({a}, 1.0 + {b} * {b})", "np.remainder({a}, 1.0 + {b} * {b})", "math.remainder({a}, 2.0)", "math.remainder(3.0 * {a}, 1.5)", "math.log(1.0 + {a} * {a}, 2.0)", "np.arctan({a})", "np.arcsinh({a})",
                            "np.arcsin({a} / (1.0 + {a} * {a}))", "np.arccos({a} / (1.0 + {a} * {a}))", "np.arccosh(1.0 + {a} * {a})", "np.arctanh({a} / (1.0 + {a} * {a}))", "np.ceil({a})", "math.ceil({a})",
                            "np.floor({a})", "np.tan({a} / (1.0 + {a} * {a}))", "math.cosh({a} / (1.0 + {a} * {a}))", "math.pow(1.0 + {a} * {a}, {b} / (1.0 + {b} * {b}))", "round({a})", "math.fabs({a})",
                            "math.atan2({a}, {b})", "math.hypot({a}, {b})", "math.copysign({a}, {b})", "math.fmod({a}, 1.0 + {b} * {b})", "np.mod({a}, 1.0 + {b} * {b})"])
            self.feats.add(f"other_table_names:{f.split('(')[0]}")
            return f.format(a=a, b=b)
        f = rng.choice(["min", "max", "pow", "np.power", "np.minimum"])
        self.feats.add(f"nary:{f}")
        if f in ("pow", "np.power"):
            return f"{f}(1.0 + {a} * {a}, {rng.choice(['2', '0.5'])})"
        if f in ("min", "max") and rng.random() < 0.5:
            # n-ary with more than two arguments; every argument can be the extremum somewhere
            more = ", ".join(self.atom(names) for _ in range(rng.randint(1, 2)))
            self.feats.add("nary_with_3_or_4_arguments")
            return f"{f}({a}, {b}, {more})"
        return f"{f}({a}, {b})"


HOSTILE_NAMES = ["x.1", "a-b", "my var", "_u", "9lives", "lambda", "class", "k+1", "muµ"]


def gen_model(rng, tag: str) -> tuple[dict, str, list[str]]:  # noqa: ANN001
    """Returns (spec with fn refs into the generated module, module source, features)."""
    eg = ExprGen(rng)
    mod = f"c08fn_{tag}"
    src = ['"""generated"""', "import math", "import numpy as np", "", "", "def helper(a):", "    return a * 2.0", "", ""]
    fn_i = [0]

    def new_fn(nargs: int, kind: str = "expr", own: list[str] | None = None, rate: bool = False) -> str:
        name = f"fn{fn_i[0]}"
        fn_i[0] += 1
        params = own if own is not None else [f"p{i}" for i in range(nargs)]
        if kind == "expr":
            e_ = eg.expr(params, 2) if params else "1.5"
            if rate and rng.random() < 0.15:
                # (rate laws only: a rate feeds nothing but the derivatives, so the magnitude cannot end up inside a
                # transcendental function or cancel against terms of order 1 further down)
                # a literal of another magnitude or spelling (whole-valued floats beyond 32 and 53 bits, tiny values) as a plain
                # factor of the whole expression: no cancellation against terms of order 1 can come from it
                lit = rng.choice(["5e9", "1e12", "3000000000.0", "4294967296.0", "1e-12", "2.5e-7", "6.022e23", "123456789"])
                e_ = rng.choice([f"{lit} * ({e_})", f"({e_}) * {lit}", f"({e_}) / {lit}"])
                eg.feats.add("literal_of_unusual_magnitude")
            if rate and params and rng.random() < 0.04:
                # a two-argument function of the exporter's one-argument table as a term of the rate law (refused, or right)
                e_ = f"math.remainder({params[0]}, {rng.choice(['2.0', '1.5', '0.75'])}) + ({e_})"
                eg.feats.add("other_table_names:math.remainder")
            body = [f"    return {e_}"]
        elif kind == "nested_call":
            body = [f"    return helper({params[0]}) + {eg.expr(params, 1)}"]
            eg.feats.add("nested_user_call")
        elif kind == "multi_statement":
            body = [f"    a = {eg.expr(params, 1)}", f"    return a * {params[0]}"]
            eg.feats.add("multi_statement")
        else:
            body = ['    """doc"""', f"    return {eg.expr(params, 1)}"]
            eg.feats.add("docstring")
        sig = ", ".join(params)
        if len(params) >= 2 and rng.random() < 0.08:
            # other shapes of a signature that call the same way: positional-only parameters (all of them, or the leading ones)
            cut = rng.randint(1, len(params))
            sig = ", ".join(params[:cut]) + ", /" + ("".join(", " + q for q in params[cut:]))
            eg.feats.add("positional_only_parameters(" + ("all" if cut == len(params) else "leading") + ")")
        src.append(f"def {name}({sig}):\n" + "\n".join(body) + "\n\n")
        return f"{mod}:{name}"

    nvar = rng.randint(1, 4)
    hostile_names = rng.random() < 0.25
    # "spelling only": names that need escaping (ASCII ones) in a model with numeric coefficients: the re-read model is
    # known to spell them as identifiers and is compared with the original through that spelling
    spelling_only = rng.random() < 0.15
    hostile_names = hostile_names or spelling_only
    pool = [n for n in HOSTILE_NAMES if n.isascii() or not spelling_only]
    rng.shuffle(pool)

    def mk(base: str) -> str:
        if hostile_names and pool and rng.random() < 0.5:
            eg.feats.add("name_needs_escaping")
            return pool.pop()
        return base

    variables = [mk(f"x{i}") for i in range(nvar)]
    params = [mk(f"k{i}") for i in range(rng.randint(2, 4))]
    comps: list[dict] = []
    for p in params:
        # (some thresholds sit on the lattice the compared states are drawn from: a variable equals its threshold now and then)
        comps.append({"kind": "parameter", "name": p, "value": rng.choice([0.5, 1.0, 1.5, 2.0]) if rng.random() < 0.35 else round(rng.uniform(0.3, 2.0), 3)})
    for v in variables:
        comps.append({"kind": "variable", "name": v, "value": round(rng.uniform(0.3, 2.5), 3)})
    derived: list[str] = []
    if rng.random() < 0.5:
        comps.append({"kind": "derived", "name": "dpar", "fn": new_fn(2), "args": [rng.choice(params), rng.choice(params)]})
        eg.feats.add("derived_parameter")
    if rng.random() < 0.6:
        comps.append({"kind": "derived", "name": "dvar", "fn": new_fn(2), "args": [rng.choice(variables), rng.choice(params)]})
        derived.append("dvar")
        eg.feats.add("derived_variable")
    if rng.random() < 0.25:
        kia = mk("kia")
        comps.append({"kind": "parameter", "name": kia, "ia": {"fn": new_fn(2), "args": [rng.choice(params), rng.choice(variables)]}})
        params.append(kia)
        eg.feats.add("ia_parameter")
    if rng.random() < (0.6 if spelling_only else 0.2):
        xia = mk("xia")
        lead = [n for n in ("_u", "9lives") if n in pool]
        if spelling_only and xia == "xia" and lead:
            # (names that do not start with a letter are written with a prefix that depends on the kind of component)
            xia = lead[0]
            pool.remove(xia)
            eg.feats.add("name_needs_escaping")
        comps.append({"kind": "variable", "name": xia, "ia": {"fn": new_fn(2), "args": [rng.choice(params), rng.choice(variables)]}})
        variables.append(xia)
        eg.feats.add("ia_variable")
    special = rng.choice(["none", "none", "none", "nested_call", "multi_statement", "docstring"])
    for j in range(rng.randint(1, 3)):
        nargs = rng.randint(1, 3)
        args = [rng.choice(variables)] + [rng.choice(params + derived + variables) for _ in range(nargs - 1)]
        kind = special if j == 0 and special != "none" else "expr"
        st = {}
        for v in rng.sample(variables, rng.randint(1, min(2, len(variables)))):
            r = rng.random() * (0.65 if spelling_only else 1.0)
            if r < 0.45:
                st[v] = rng.choice([-1, 1, -1.0, 1.0, 2, -2])
            elif r < 0.65:
                st[v] = rng.choice([0.5, -1.5, 2.5, -0.25])
                eg.feats.add("fractional_coefficient")
            elif r < 0.8:
                st[v] = rng.choice(params)
                eg.feats.add("named_coefficient(positive)")
            else:
                sign = rng.choice(["pos", "neg"])
                params_ = ["p0"]
                name = f"fn{fn_i[0]}"
                fn_i[0] += 1
                src.append(f"def {name}(p0):\n    return {'0.5 * p0' if sign == 'pos' else '-(0.5 * p0)'}\n\n")
                st[v] = {"fn": f"{mod}:{name}", "args": [rng.choice(params)]}
                eg.feats.add(f"computed_coefficient({sign})")
                del params_
        own = None
        if len(set(args)) == len(args) >= 2 and all(a.isidentifier() and a not in HOSTILE_NAMES for a in args) and rng.random() < 0.4:
            # the function is written in the model's own names, and wired to them in another order
            own = args[1:] + args[:1] if rng.random() < 0.5 else args[::-1]
            if own != args:
                eg.feats.add("function_parameters_are_the_model_names_in_another_order")
            else:
                own = None
        comps.append({"kind": "reaction", "name": mk(f"v{j}"), "fn": new_fn(nargs, kind, own, rate=True), "args": args, "stoich": st})
    return {"components": comps}, "\n".join(src), sorted(eg.feats)


TWIN: dict[str, bool] = {}


def _twin_model(spec: dict, tag: str):  # noqa: ANN202
    base = tag.rstrip("t")
    if not TWIN.get(base):
        return None
    import copy as _copy

    s2 = _copy.deepcopy(spec)

    def sub(ref_: str) -> str:
        return ref_.replace(f"c08fn_{base}:", f"c08fn_{base}_twin:")

    for c in s2["components"]:
        if "fn" in c:
            c["fn"] = sub(c["fn"])
        if "ia" in c:
            c["ia"]["fn"] = sub(c["ia"]["fn"])
        for v in (c.get("stoich") or {}).values():
            if isinstance(v, dict) and "fn" in v:
                v["fn"] = sub(v["fn"])
    try:
        return rm.build(s2)
    except Exception:  # noqa: BLE001
        return None


def _fragile(twin, st: dict | None) -> bool:  # noqa: ANN001
    from checks import c06_fn2sym as c06

    if twin is None:
        return False
    c06.FRAGILE["n"] = 0
    try:
        twin._cache = None  # noqa: SLF001
        twin.get_args(st, 0.0) if st is not None else twin.get_args()
        twin.get_right_hand_side(st, 0.0) if st is not None else twin.get_right_hand_side()
    except Exception:  # noqa: BLE001
        return False
    return c06.FRAGILE["n"] > 0


def _roundtrip(spec: dict, tag: str, label: str, ctx: dict, feats: list[str], seed: str, root: str) -> tuple[list[dict], dict, bool]:
    """Returns (violations, counters, export_succeeded)."""
    from mxlpy import sbml

    rng = core.rng_for(seed, "states")
    model = rm.build(spec)
    counters: dict[str, int] = {}
    viols: list[dict] = []
    try:
        model.get_right_hand_side()
    except Exception:  # noqa: BLE001
        return [], {"original_not_evaluable(skipped)": 1}, False
    path = Path(root) / f"m_{tag}.xml"
    try:
        sbml.write(model, path)
    except (NotImplementedError, ValueError) as e:
        counters["export_raised"] = 1
        counters[f"export_raised:{type(e).__name__}"] = 1
        return [], counters, False
    except Exception as e:  # noqa: BLE001
        import traceback

        return [core.viol(f"export crashed (not a controlled refusal) [{label}]", None, error=traceback.format_exc()[-500:], **ctx)], {"export_crashed": 1}, False
    counters["export_succeeded"] = 1
    try:
        with core.time_limit(40):  # pysbml's symbolic simplification can take minutes on some expressions; not a verdict
            m2 = sbml.read(path)
    except core.TimeLimit:
        counters["read_budget_exhausted(skipped)"] = 1
        return [], counters, False
    except Exception as e:  # noqa: BLE001
        import traceback

        mech = None
        tb = traceback.format_exc()
        if isinstance(e, RecursionError) and "sympy/functions/elementary/piecewise.py" in tb and "pysbml/transform/mathml2sympy.py" in tb:
            # attribution: the file itself must mean what the model means (independent libsbml reading), so that only the reader is at fault
            if _file_means_the_model(path, model, rng):
                mech = "C08-sympy-piecewise-recursion-on-read"
                counters["independent_reader_confirms_written_file"] = 1
        return [core.viol(f"file written by sbml.write cannot be read back [{label}]", mech, error=f"{type(e).__name__}: {e}"[:300], **ctx)], counters, True
    finally:
        try:
            path.unlink()
        except OSError:
            pass
    counters["read_back"] = 1
    twin = _twin_model(spec, tag)
    names2 = set(m2.ids)
    orig_names = [c["name"] for c in spec["components"]]
    missing = [n for n in orig_names if n not in names2]
    if missing:
        viols.append(core.viol(f"re-read model lacks original components under their names [{label}]", None, missing=missing, reread=sorted(names2)[:30], **ctx))
        # the identifiers the names are known to be turned into (known finding): only if every missing name is found under
        # such an identifier does the comparison go on, name-blind; anything that differs then is more than a spelling
        ren = {}
        if any(not n.isascii() for n in orig_names) or any(f.startswith(("computed_coefficient", "named_coefficient")) for f in feats):
            # (identifiers outside ASCII are escaped differently in different places of the written file, and so are the
            # references a computed or named coefficient makes to such names: same finding)
            return viols, counters, True
        for n in missing:
            cands = [c for c in SPELLINGS.get(n, []) if c in names2 and c not in orig_names]
            if len(cands) != 1:
                return viols, counters, True
            ren[n] = cands[0]
        if len(set(ren.values())) != len(ren):
            return viols, counters, True
        m2 = _Renamed(m2, ren)
        counters["compared_name_blind_after_identifier_spelling"] = 1
        ctx = dict(ctx, compared_name_blind=True)
    try:
        try:
            with np.errstate(over="raise", invalid="raise", divide="raise"):
                model._cache = None  # noqa: SLF001  (re-resolve under the strict floating-point mode)
                ic1, a1 = model.get_initial_conditions(), model.get_args()
                model.get_right_hand_side()
        except Exception:  # noqa: BLE001
            return [], {"original_not_evaluable(skipped)": 1}, True
        import math as _m0

        if any(not _m0.isfinite(float(v)) for v in a1.values):
            return [], {"original_not_evaluable(skipped)": 1}, True
        ic2, a2 = m2.get_initial_conditions(), m2.get_args()
        if _fragile(twin, None):
            counters["states_where_rounding_decides_a_comparison(skipped)"] = counters.get("states_where_rounding_decides_a_comparison(skipped)", 0) + 1
            ic2, a2 = ic1, a1
        bad = [k for k in ic1 if not core.close(ic2.get(k, float("nan")), ic1[k], 1e-9)]
        bad += [k for k in model.get_parameter_names() if not core.close(a2.get(k, float("nan")), a1[k], 1e-9)]
        if bad:
            viols.append(core.viol(f"re-read model has different initial / parameter values [{label}]", None, names=bad, original={k: float(a1[k]) for k in bad},
                                   reread={k: float(a2.get(k, float("nan"))) for k in bad}, **ctx))
        vars1 = model.get_variable_names()
        for i_state in range(8):
            st = {v: round(rng.uniform(0.3, 2.5), 3) for v in vars1}
            if i_state >= 3:
                # lattice states: plain comparisons sit exactly on their switching points here
                st = {v: rng.choice([0.5, 1.0, 1.5, 2.0]) for v in vars1}
            st2 = {v: st.get(v, ic2[v]) for v in m2.get_variable_names()}
            try:
                # an intermediate overflow / invalid operation (numpy would carry an inf or nan on) puts the state outside the
                # functions' real domain
                with np.errstate(over="raise", invalid="raise", divide="raise"):
                    a1, r1 = model.get_args(st, 0.0), model.get_right_hand_side(st, 0.0)
            except Exception:  # noqa: BLE001
                counters["states_outside_domain_of_original(skipped)"] = counters.get("states_outside_domain_of_original(skipped)", 0) + 1
                continue
            import math as _m

            if any(not _m.isfinite(float(v)) for v in list(a1.values) + list(r1.values)):
                # the original yields inf / nan here (numpy semantics): outside the functions' real domain
                counters["states_outside_domain_of_original(skipped)"] = counters.get("states_outside_domain_of_original(skipped)", 0) + 1
                continue
            if _fragile(twin, st):
                counters["states_where_rounding_decides_a_comparison(skipped)"] = counters.get("states_where_rounding_decides_a_comparison(skipped)", 0) + 1
                continue
            a2, r2 = m2.get_args(st2, 0.0), m2.get_right_hand_side(st2, 0.0)
            # conditioning: how far the original's own values move when its inputs move by 1e-12 (relative); a difference
            # smaller than a few per cent of that is within what rounding inside a correct implementation can cost
            # (6e23 * (sqrt(x) - 1) at x = 1: zero in one order of evaluation, 1e9 in another)
            sens_a, sens_r = {}, {}
            try:
                for sgn in (1.0, -1.0):
                    stp = {k: v * (1.0 + sgn * 1e-12) for k, v in st.items()}
                    ap, rp = model.get_args(stp, 0.0), model.get_right_hand_side(stp, 0.0)
                    for k in a1.index:
                        sens_a[k] = max(sens_a.get(k, 0.0), abs(float(ap[k]) - float(a1[k])))
                    for k in r1.index:
                        sens_r[k] = max(sens_r.get(k, 0.0), abs(float(rp[k]) - float(r1[k])))
            except Exception:  # noqa: BLE001
                sens_a, sens_r = {}, {}

            def same(x2, x1, sens) -> bool:  # noqa: ANN001, ANN202
                return core.close(x2, x1, 1e-9) or (_m.isfinite(float(x2)) and abs(float(x2) - float(x1)) <= 0.05 * sens)

            bad = [k for k in a1.index if k != "time" and a1[k] == a1[k] and not same(a2.get(k, float("nan")), a1[k], sens_a.get(k, 0.0))]
            bad += [f"d{k}/dt" for k in r1.index if r1[k] == r1[k] and not same(r2.get(k, float("nan")), r1[k], sens_r.get(k, 0.0))]
            counters["states_compared"] = counters.get("states_compared", 0) + 1
            if bad:
                viols.append(core.viol(f"re-read model computes different values [{label}]", None, names=bad[:6],
                                       original={k: float(a1[k]) for k in bad[:6] if k in a1.index}, reread={k: float(a2[k]) for k in bad[:6] if k in a2.index}, state=st, **ctx))
                break
    except (ZeroDivisionError, FloatingPointError, OverflowError):
        import traceback

        tb_ = traceback.format_exc()[-600:]
        if _ill_conditioned_at_start(spec):
            # the original sits (up to rounding) on a singularity of its own functions: an algebraically equivalent expression
            # may land exactly on it (k - (k + 1) is -0.9999999999999999 in floating point and -1 after simplification)
            counters["original_within_rounding_of_a_singularity(skipped)"] = 1
        else:
            viols.append(core.viol(f"re-read model cannot be evaluated [{label}]", None, error=tb_, **ctx))
    except Exception:  # noqa: BLE001
        import traceback

        viols.append(core.viol(f"re-read model cannot be evaluated [{label}]", None, error=traceback.format_exc()[-600:], **ctx))
    return viols, counters, True


def _ill_conditioned_at_start(spec: dict) -> bool:
    """Do the original model's own values move by more than 1e-6 (relative) - or stop being computable - when every declared
    number moves by a relative 1e-12?"""
    import copy
    import math as _m

    try:
        base = rm.build(spec)
        a0, r0 = base.get_args(), base.get_right_hand_side()
    except Exception:  # noqa: BLE001
        return True
    for sgn in (1.0, -1.0):
        sp = copy.deepcopy(spec)
        for c in sp["components"]:
            if c["kind"] in ("parameter", "variable") and "value" in c:
                c["value"] = c["value"] * (1.0 + sgn * 1e-12)
        try:
            m_ = rm.build(sp)
            a1, r1 = m_.get_args(), m_.get_right_hand_side()
        except Exception:  # noqa: BLE001
            return True
        for x0, x1 in ((a0, a1), (r0, r1)):
            for k in x0.index:
                u, v = float(x0[k]), float(x1[k])
                if not (_m.isfinite(u) and _m.isfinite(v)) or abs(u - v) > 1e-6 * max(1.0, abs(u)):
                    return True
    return False


SPELLINGS = {"x.1": ["x1"], "a-b": ["a_b"], "my var": ["my_var"], "_u": ["CPD__u", "PAR__u", "RXN__u", "AR__u"], "9lives": ["CPD_9lives", "PAR_9lives", "RXN_9lives", "AR_9lives"], "lambda": ["lambda_"],
             "class": ["class_"], "k+1": ["kplus1"]}


class _Renamed:
    """The re-read model seen through the original names (ren: original name -> identifier it was turned into)."""

    def __init__(self, m, ren: dict) -> None:  # noqa: ANN001
        self.m, self.ren, self.inv = m, ren, {v: k for k, v in ren.items()}

    def _out(self, x):  # noqa: ANN001, ANN202
        if isinstance(x, dict):
            return {self.inv.get(k, k): v for k, v in x.items()}
        return x.rename(index=self.inv)

    def _in(self, st):  # noqa: ANN001, ANN202
        return None if st is None else {self.ren.get(k, k): v for k, v in st.items()}

    @property
    def ids(self):  # noqa: ANN201
        return {self.inv.get(k, k) for k in self.m.ids}

    def get_initial_conditions(self):  # noqa: ANN201
        return self._out(self.m.get_initial_conditions())

    def get_variable_names(self):  # noqa: ANN201
        return [self.inv.get(k, k) for k in self.m.get_variable_names()]

    def get_args(self, st=None, t=0.0):  # noqa: ANN001, ANN201
        return self._out(self.m.get_args(self._in(st), t))

    def get_right_hand_side(self, st=None, t=0.0):  # noqa: ANN001, ANN201
        return self._out(self.m.get_right_hand_side(self._in(st), t))


def _same_path_rewrite(spec: dict, tag: str, root: str) -> dict | None:
    """write(A, f); read(f); write(B, f); read(f) within one second, A and B differing in digits only (same file size): the
    second read is B."""
    import copy

    from mxlpy import sbml

    spec_b = copy.deepcopy(spec)
    changed = {}
    for c in spec_b["components"]:
        if c["kind"] == "parameter" and "value" in c and isinstance(c["value"], float):
            txt = repr(c["value"])
            new = txt[:-1] + ("7" if txt[-1] != "7" else "3")  # same number of characters
            if "e" not in txt and len(repr(float(new))) == len(txt):
                c["value"] = float(new)
                changed[c["name"]] = float(new)
    if not changed:
        return None
    path = Path(root) / f"same_{tag}.xml"
    try:
        for _ in range(3):
            t0 = int(__import__("time").time())
            sbml.write(rm.build(spec), path)
            size_a = path.stat().st_size
            with core.time_limit(40):
                sbml.read(path)
            sbml.write(rm.build(spec_b), path)
            with core.time_limit(40):
                m_b = sbml.read(path)
            if int(__import__("time").time()) == t0 and path.stat().st_size == size_a:
                break
        got = m_b.get_parameter_values()
        bad = {k: (float(got.get(k, float("nan"))), v) for k, v in changed.items() if k in got and not core.close(got[k], v, 1e-12)}
        if bad:
            return {"what": "a file rewritten at the same path is read back as what it held before", "parameters(read, written)": bad}
    except Exception:  # noqa: BLE001
        return None  # (export / import problems of this model are the round trip's business)
    finally:
        try:
            path.unlink()
        except OSError:
            pass
    return None


def plain_names(spec: dict) -> dict:
    """Twin: the same model with every name that needs escaping replaced by a plain identifier."""
    import copy
    import json

    s = copy.deepcopy(spec)
    mapping = {n: f"plain{i}" for i, n in enumerate(HOSTILE_NAMES)}
    text = json.dumps(s)
    for old, new in mapping.items():
        text = text.replace(json.dumps(old), json.dumps(new))
    return json.loads(text)


def _file_means_the_model(path, model, rng) -> bool:  # noqa: ANN001
    """Derivatives prescribed by the written document (mon/sbml_interp, libsbml only) equal the model's at 3 states."""
    try:
        from mon.sbml_interp import Doc

        doc = Doc(str(path))
        names = model.get_variable_names()
        if sorted(names) != sorted(k for k in doc.species if k not in doc.rules):
            return False
        if any(abs(doc.size_of(k) - 1.0) > 1e-12 for k in names):
            return False
        for _ in range(3):
            st = {k: round(rng.uniform(0.3, 2.5), 3) for k in names}
            want = model.get_right_hand_side(st, 0.0)
            got = doc.rates(st, 0.0)
            if any(not core.close(got[k], float(want[k]), 1e-9, 1e-12) for k in names):
                return False
        return True
    except Exception:  # noqa: BLE001
        return False


def run_case(case: dict) -> dict:
    rng = core.rng_for(case["seed"])
    tag = core.sha(case["seed"])
    root = os.path.join(os.environ.get("VERIF_WORKDIR", "/tmp"), "c08pkg")  # noqa: S108
    os.makedirs(root, exist_ok=True)
    if root not in sys.path:
        sys.path.insert(0, root)
    spec, src, feats = gen_model(rng, tag)
    with open(os.path.join(root, f"c08fn_{tag}.py"), "w") as fh:
        fh.write(src)
    importlib.invalidate_caches()
    # instrumented twin of the generated module (every comparison routed through a recorder, as in C06): a state at which
    # a comparison is decided by floating-point rounding has no defined branch for an algebraically equivalent expression
    from checks import c06_fn2sym as c06
    import types as _types

    try:
        tw = _types.ModuleType(f"c08fn_{tag}_twin")
        tw.__dict__.update(c06.instrumented_twin(src, f"c08fn_{tag}"))
        sys.modules[f"c08fn_{tag}_twin"] = tw
        TWIN[tag] = True
    except Exception:  # noqa: BLE001
        TWIN[tag] = False
    label = "+".join(f for f in feats if f not in ("pow", "ifexp", "table_function", "math_constant", "docstring", "derived_parameter", "derived_variable")) or "plain"
    ctx = {"features": feats, "spec": spec, "functions": src[-1200:]}
    viols, counters, exported = _roundtrip(spec, tag, label, ctx, feats, case["seed"], root)
    if viols and "name_needs_escaping" in feats:
        # attribution: the twin with plain identifiers instead of the names that need escaping must round-trip
        tv, _tc, texp = _roundtrip(plain_names(spec), tag + "t", label, ctx, feats, case["seed"], root)
        if texp and not tv:
            for v in viols:
                # what the finding covers: the names come back spelled as identifiers, or the reader refuses two names that
                # are spelled alike; a re-read model that differs in more than the spelling of its names is not covered
                if not v["detail"].get("compared_name_blind") or v["what"].startswith("re-read model lacks original components under their names"):
                    v["mechanism"] = "C08-names-not-python-identifiers"
            counters["twin_with_plain_names_round_trips"] = 1
    if exported and not viols and rng.random() < 0.3:
        v2 = _same_path_rewrite(spec, tag, root)
        counters["same_path_rewritten_and_read_again"] = 1
        if v2:
            viols.append(core.viol(v2.pop("what"), None, **v2, **ctx))
    for f in feats:
        counters[f"feat:{f}"] = 1
    hostile = [f for f in feats if f not in ("pow", "table_function", "math_constant", "docstring")]
    return core.result(sig=tag, nontrivial=bool(hostile) and exported, violations=viols[:3], counters=counters,
                       sample={"features": feats, "functions": src[-700:]} if case.get("idx", 0) < 2 else None)


def finalize(results: list[dict], tier: str, counters) -> dict:  # noqa: ANN001
    inc = []
    for k in ("read_back", "states_compared", "export_raised"):
        if not counters.get(k):
            inc.append(f"outcome '{k}' never observed")
    return {"inconclusive": inc, "outcomes": {k: counters.get(k, 0) for k in ("export_succeeded", "export_raised", "read_back")}}
