"""C17 — SBML import builds the model the document describes.

Oracle: mon/sbml_interp.py, an independent numeric reading of the document
through libsbml's object model (trusted base: libsbml's parser + ~250 lines).
Documents are generated with the libsbml API.  Session interference is tested
in forked children (a real process lifetime per session): same file stem in
different directories, stems that collide after file-name normalisation, and
same-length generated sources differing in one digit read back to back.
"""

from __future__ import annotations

import os
import pickle
import shutil
import time
import traceback
from pathlib import Path

from mon import core, gen_sbml, sbml_interp

LEVEL = "exploration"
RULE = (
    "generated SBML L3V2 documents: 1-2 compartments (size != 1), 2-4 species with initialAmount / initialConcentration "
    "/ initial assignment, hasOnlySubstanceUnits or not, optional boundary species, parameters, (nested) function "
    "definitions with non-alphabetical argument order, chained assignment rules, initial assignments, kinetic laws with "
    "piecewise / power / transcendental math / local parameters / time, constant, fractional and rule-defined "
    "stoichiometries, hostile identifiers (Python keywords, builtins, module names, leading underscore, names colliding "
    "after escaping); plus pair sessions reading two documents in one process. non-trivial = compartment size != 1 or "
    "hostile identifier or rule-defined stoichiometry or function definition; distinct = document hash"
)
ASSUMPTIONS = [
    "oracle: mon/sbml_interp.py on libsbml's parsed document",
    "the imported variable of a species may be its amount or its concentration; the representation is inferred from the imported initial value and must then hold for the derivatives",
    "identifier mapping id -> Python name is taken from pysbml's name_to_py (the statement asks for consistency, not for a particular spelling)",
]
N = {"quick": 240, "thorough": 40000}
MIN_NONTRIVIAL = {"quick": 60, "thorough": 1200}
CASE_TIMEOUT = 300


def gen_cases(tier: str, seed: int) -> list[dict]:
    n = max(6, int(N[tier] * float(os.environ.get("VERIF_SCALE", "1"))))
    cases = [{"seed": f"{seed}:C17:{i}", "part": "doc", "hostile": i % 4 == 3} for i in range(n)]
    for i in range(max(4, n // 8)):
        cases.append({"seed": f"{seed}:C17:pair:{i}", "part": "pair", "variant": ["same_stem_other_dir", "colliding_stems", "one_digit", "reread"][i % 4]})
    return cases


def py_name(sid: str) -> str:
    from pysbml.parse.name_conversion import name_to_py

    return name_to_py(sid)


def compare_document(path: str, model, rng, label: str) -> tuple[list[dict], dict]:  # noqa: ANN001
    """Imported model vs independent reading of the document."""
    D = sbml_interp.Doc(path)
    viols: list[dict] = []
    counters: dict[str, int] = {}
    ids = dict(model.ids)
    try:
        ic = model.get_initial_conditions()
        args0 = model.get_args()
    except Exception as e:  # noqa: BLE001
        return [core.viol(f"imported model cannot be evaluated [{label}]", None, error=f"{type(e).__name__}: {e}"[:300])], counters
    exp0 = D.initial_state()
    rep: dict[str, str] = {}
    # collisions after identifier mapping
    all_ids = list(D.species) + list(D.parameters) + list(D.compartments) + list(D.rules) + [r.getId() for r in D.reactions]
    mapped: dict[str, str] = {}
    for sid in dict.fromkeys(all_ids):
        n = py_name(sid)
        if n in mapped.values():
            viols.append(core.viol(f"two identifiers are mapped to the same name [{label}]", "C17-identifier-collision", ids=[k for k, v in mapped.items() if v == n] + [sid], name=n))
        mapped[sid] = n
    for sid, sp in D.species.items():
        name = mapped[sid]
        if name not in ids:
            viols.append(core.viol(f"species missing in the imported model [{label}]", None, species=sid, expected_name=name, ids=sorted(ids)[:30]))
            continue
        V = D.size_of(sid)
        math_val = exp0[sid]  # conc unless hasOnlySubstanceUnits
        amount0 = math_val if sp.getHasOnlySubstanceUnits() else math_val * V
        conc0 = amount0 / V
        got = float(ic[name]) if name in ic else float(args0[name])
        if core.close(got, amount0, 1e-9):
            rep[sid] = "amount"
        elif core.close(got, conc0, 1e-9):
            rep[sid] = "conc"
        else:
            viols.append(core.viol(f"initial value of a species is neither the prescribed amount nor concentration [{label}]", None, species=sid, got=got, amount=amount0, concentration=conc0))
            rep[sid] = "amount"
        counters["initial_values_compared"] = counters.get("initial_values_compared", 0) + 1
    for pid in D.parameters:
        if pid in D.rules:
            continue
        name = mapped[pid]
        exp = D.value(pid, None, 0.0, initial=True)
        if name not in args0.index:
            viols.append(core.viol(f"parameter missing in the imported model [{label}]", None, parameter=pid, expected_name=name))
        elif not (core.close(args0[name], exp, 1e-9) and abs(float(args0[name]) - exp) <= 1e-9 * abs(exp)):
            # (relative to the value itself: a rate constant of 2.5e-17 is a value, not noise)
            viols.append(core.viol(f"parameter value differs from the document [{label}]", None, parameter=pid, got=float(args0[name]), expected=exp))
    if viols:
        return viols, counters
    var_names = model.get_variable_names()
    dyn = [sid for sid in D.species if mapped[sid] in var_names]
    # quantities under a rate rule that are not species (coefficients, parameters): states of the imported model as well
    ruled = [q for q in D.rate_rules if q not in D.species and mapped.get(q, py_name(q)) in var_names]
    for q in ruled:
        name = mapped.get(q, py_name(q))
        exp = D.value(q, None, 0.0, initial=True)
        if not core.close(float(ic[name]), exp, 1e-9):
            viols.append(core.viol(f"initial value of a quantity under a rate rule differs from the document [{label}]", None, quantity=q, got=float(ic[name]), expected=exp))
            return viols, counters
        counters["quantities_under_a_rate_rule_compared"] = counters.get("quantities_under_a_rate_rule_compared", 0) + 1
    for _ in range(4):
        xs = {sid: round(rng.uniform(0.4, 3.0), 3) for sid in dyn}
        t = rng.choice([0.0, 0.0, 1.5])
        # state in math units for the interpreter
        st = {}
        for sid in D.species:
            sp = D.species[sid]
            V = D.size_of(sid)
            if sid in xs:
                amount = xs[sid] if rep[sid] == "amount" else xs[sid] * V
                st[sid] = amount if sp.getHasOnlySubstanceUnits() else amount / V
            else:
                st[sid] = exp0[sid]
        qs = {q: round(rng.uniform(0.4, 3.0), 3) for q in ruled}
        st.update(qs)
        try:
            exp_amount = D.rates(st, t, amounts=True)
            exp_rules = D.rule_values(st, t)
            exp_ruled = D.rate_rule_rates(st, t)
        except (sbml_interp.InterpError, ZeroDivisionError, ValueError, OverflowError):
            counters["interpreter_could_not_evaluate(skipped)"] = counters.get("interpreter_could_not_evaluate(skipped)", 0) + 1
            continue
        mstate = {mapped[sid]: xs[sid] for sid in dyn}
        mstate.update({mapped.get(q, py_name(q)): v for q, v in qs.items()})
        for v in var_names:
            mstate.setdefault(v, float(ic[v]))
        try:
            model.get_stoichiometries(mstate, t)  # reading the table of coefficients of the imported model changes nothing
            rhs = model.get_right_hand_side(mstate, t)
            a = model.get_args(mstate, t)
        except Exception as e:  # noqa: BLE001
            viols.append(core.viol(f"imported model cannot be evaluated [{label}]", None, error=f"{type(e).__name__}: {e}"[:300]))
            break
        counters["states_compared"] = counters.get("states_compared", 0) + 1
        if len(mstate) > 1:
            # the same state as one row of a table whose columns are labelled, in another order than the model's: the table
            # forms give what the single-state forms gave (which are compared with the document below)
            import pandas as pd

            cols = list(mstate)[::-1] if list(mstate)[::-1] != list(model.get_variable_names()) else list(mstate)[1:] + list(mstate)[:1]
            frame = pd.DataFrame([[mstate[c] for c in cols]], columns=cols, index=[t])
            try:
                a_frame = model.get_args_time_course(frame)
                a_tc = a_frame.iloc[0]
                rhs_tc = model.get_right_hand_side_time_course(a_frame).iloc[0]  # (this one takes the table of all values)
                fl_tc = model.get_fluxes_time_course(frame).iloc[0]
                fl1 = model.get_fluxes(mstate, t)
            except Exception as e:  # noqa: BLE001
                viols.append(core.viol(f"imported model cannot be evaluated over a table of states [{label}]", None, error=f"{type(e).__name__}: {e}"[:300]))
                break
            for nm, one, tab in (("get_args", a, a_tc), ("get_right_hand_side", rhs, rhs_tc), ("get_fluxes", fl1, fl_tc)):
                bad = [k for k in one.index if k != "time" and (k not in tab.index or not (core.close(float(tab[k]), float(one[k]), 1e-9, 1e-12) or (one[k] != one[k] and tab[k] != tab[k])))]
                if bad:
                    viols.append(core.viol(f"table form of {nm} differs from the single-state form on an imported model [{label}]", None, name=bad[0], single=float(one[bad[0]]),
                                           table=float(tab[bad[0]]) if bad[0] in tab.index else None, columns=cols, model_order=list(model.get_variable_names()), state=mstate, time=t))
                    return viols, counters
            counters["states_compared_as_a_table_row_with_columns_in_another_order"] = counters.get("states_compared_as_a_table_row_with_columns_in_another_order", 0) + 1
        for sid in dyn:
            V = D.size_of(sid)
            exp = exp_amount[sid] if rep[sid] == "amount" else exp_amount[sid] / V
            got = float(rhs[mapped[sid]])
            if not core.close(got, exp, 1e-9, 1e-12):
                viols.append(core.viol(f"derivative of a species differs from stoichiometry x kinetic laws of the document [{label}]", None, species=sid, representation=rep[sid],
                                       got=got, expected=exp, compartment_size=V, state={**xs, **qs}, time=t))
                return viols, counters
        for q in ruled:
            got = float(rhs[mapped.get(q, py_name(q))])
            if not core.close(got, exp_ruled[q], 1e-9, 1e-12):
                viols.append(core.viol(f"derivative of a quantity under a rate rule differs from the document [{label}]", None, quantity=q, got=got, expected=exp_ruled[q], state={**xs, **qs}, time=t))
                return viols, counters
        for rid, exp in exp_rules.items():
            name = mapped.get(rid, py_name(rid))
            if name in a.index and rid not in D.srefs and not core.close(a[name], exp, 1e-9, 1e-12):
                viols.append(core.viol(f"assignment rule value differs from the document [{label}]", None, rule=rid, got=float(a[name]), expected=exp, state=xs))
                return viols, counters
    return viols, counters


def _child(fn, out: str):  # noqa: ANN001, ANN202
    pid = os.fork()
    if pid == 0:
        code = 0
        try:
            res = fn()
            with open(out, "wb") as fh:
                pickle.dump(res, fh)
        except BaseException:  # noqa: BLE001
            code = 3
            with open(out + ".err", "w") as fh:
                fh.write(traceback.format_exc())
        finally:
            os._exit(code)
    deadline = time.time() + 120
    while True:
        w, status = os.waitpid(pid, os.WNOHANG)
        if w == pid:
            return os.WEXITSTATUS(status) if os.WIFEXITED(status) else -2
        if time.time() > deadline:
            os.kill(pid, 9)
            os.waitpid(pid, 0)
            return -1
        time.sleep(0.01)


def run_case(case: dict) -> dict:
    from mxlpy import sbml

    rng = core.rng_for(case["seed"])
    work = Path(os.environ.get("VERIF_WORKDIR", "/tmp")) / "c17" / core.sha(case["seed"])  # noqa: S108
    work.mkdir(parents=True, exist_ok=True)
    counters: dict[str, int] = {f"part:{case['part']}": 1}
    viols: list[dict] = []
    try:
        if case["part"] == "doc":
            path = str(work / f"doc_{core.sha(case['seed'])}.xml")
            info = gen_sbml.gen_document(rng, path, hostile_ids=case["hostile"])
            label = "+".join(f for f in info["features"] if f in ("hostile_identifier", "rule_defined_stoichiometry", "has_only_substance_units", "initial_assignment_species", "boundary_species", "local_parameter", "helper_name_collision")) or "plain"
            try:
                model = sbml.read(Path(path))
            except Exception as e:  # noqa: BLE001
                viols.append(core.viol(f"reading a valid document raised [{label}]", mech_read(info, e), error=f"{type(e).__name__}: {e}"[:300], features=info["features"], document=open(path).read()[:3000]))
                model = None
            if model is not None:
                counters["documents_imported"] = 1
                v, c = compare_document(path, model, core.rng_for(case["seed"], "states"), label)
                for x in v:
                    x["detail"]["features"] = info["features"]
                    x["detail"]["document"] = open(path).read()[:3500]
                viols += v
                counters.update(c)
            if viols:
                mech = attribute(case, path, work)
                if mech:
                    counters[f"attributed:{mech}"] = 1
                    for x in viols:
                        x["mechanism"] = mech
            for f in info["features"]:
                counters[f"feat:{f}"] = 1
            nt = bool({"compartment_size_not_1", "hostile_identifier", "rule_defined_stoichiometry", "function_definition"} & set(info["features"]))
            sig = core.sha(open(path).read())
            sample = {"features": info["features"]} if case.get("idx", 0) < 3 else None
        else:
            variant = case["variant"]
            d1, d2 = work / "a", work / "b"
            d1.mkdir(exist_ok=True)
            d2.mkdir(exist_ok=True)
            if variant == "same_stem_other_dir":
                p1, p2 = d1 / "model.xml", d2 / "model.xml"
            elif variant == "colliding_stems":
                p1, p2 = d1 / "My Model-1.xml", d1 / "my_model_1.xml"
            elif variant == "one_digit":
                p1, p2 = d1 / "m.xml", d2 / "m.xml"  # same stem: same generated module path and byte-code cache entry
            else:
                p1, p2 = d1 / "model.xml", d1 / "model.xml"
            sub = core.rng_for(case["seed"], "doc")
            state = sub.getstate()
            if variant == "one_digit":
                gen_sbml.gen_document(sub, str(p1), stem_marker=1.25)
                sub.setstate(state)
                gen_sbml.gen_document(sub, str(p2), stem_marker=1.75)
            else:
                gen_sbml.gen_document(sub, str(p1))
                if variant != "reread":
                    gen_sbml.gen_document(core.rng_for(case["seed"], "doc2"), str(p2))
            # interference must be told apart from per-document import defects: use documents without the known
            # per-document mechanisms and require that each imports correctly alone (control sessions)
            def _sanitise(p: Path) -> None:
                tmp = str(p) + ".tmp.xml"
                gen_sbml.twin_without_species_initial_assignments(str(p), tmp)
                gen_sbml.twin_with_uniform_declarations(tmp, str(p))
                os.unlink(tmp)

            _sanitise(p1)
            if variant != "reread":
                _sanitise(p2)
            home = work / "home"
            home.mkdir(exist_ok=True)

            def control(path: Path, tag: str):  # noqa: ANN202
                def f():  # noqa: ANN202
                    os.environ["HOME"] = str(work / f"home_{tag}")
                    (work / f"home_{tag}").mkdir(exist_ok=True)
                    mm = sbml.read(path)
                    v, _ = compare_document(str(path), mm, core.rng_for(case["seed"], "cmp"), "control")
                    return len(v)
                return f

            controls_ok = True
            for tag, pth in (("c1", p1),) + ((("c2", p2),) if variant != "reread" else ()):
                rc0 = _child(control(pth, tag), str(work / f"{tag}.pkl"))
                if rc0 != 0 or pickle.load(open(work / f"{tag}.pkl", "rb")) != 0:  # noqa: S301, SIM115
                    controls_ok = False
            if not controls_ok:
                counters["pair_skipped(control: a document does not import correctly alone)"] = 1
                shutil.rmtree(work, ignore_errors=True)
                return core.result(sig=case["seed"], nontrivial=False, counters=counters)

            def session():  # noqa: ANN202
                import sys

                sys.dont_write_bytecode = False  # let the import system cache byte code as in a normal session
                os.environ["HOME"] = str(home)
                out = {}
                m1 = sbml.read(p1)
                if variant == "reread":
                    # overwrite the file with another document of the same name and read again
                    gen_sbml.gen_document(core.rng_for(case["seed"], "doc2"), str(p2))
                    _sanitise(p2)
                m2 = sbml.read(p2)
                r = core.rng_for(case["seed"], "cmp")
                if variant != "reread":
                    v1, _ = compare_document(str(p1), m1, r, "pair:first document after reading the second")
                    out["first"] = v1
                v2, _ = compare_document(str(p2), m2, r, "pair:second document")
                out["second"] = v2
                # the functions of the first model must still be the first document's, also for tools that look
                # up their source (symbolic conversion / code generation read source files)
                if variant != "reread":
                    try:
                        from mxlpy.meta import generate_mxlpy_code

                        ns: dict = {}
                        exec(generate_mxlpy_code(m1), ns)  # noqa: S102
                        rb = ns["create_model"]()
                        a, b = m1.get_right_hand_side(), rb.get_right_hand_side()
                        if any(not core.close(b.get(k, float("nan")), a[k], 1e-9) for k in a.index if a[k] == a[k]):
                            out["first"] = [*out.get("first", []), core.viol("source of the first model's functions resolves to another document", None, original=a.to_dict(), from_source=b.to_dict())]
                    except ValueError:
                        pass  # untranslatable function: generation refused
                return out

            outf = str(work / "session.pkl")
            rc = _child(session, outf)
            counters[f"pair:{variant}"] = 1
            if rc != 0:
                err = open(outf + ".err").read()[-600:] if os.path.exists(outf + ".err") else f"rc={rc}"
                viols.append(core.viol(f"reading two documents in one session failed [{variant}]", None, error=err))
            else:
                with open(outf, "rb") as fh:
                    out = pickle.load(fh)  # noqa: S301
                for which, v in out.items():
                    for x in v:
                        x["what"] = f"two documents read in one session interfere ({which}) [{variant}]: " + x["what"]
                        viols.append(x)
                counters["pair_sessions_compared"] = 1
            nt, sig, sample = True, case["seed"], {"pair": variant} if case.get("idx", 0) % 20 == 0 else None
    finally:
        shutil.rmtree(work, ignore_errors=True)
    seen = set()
    out_v = []
    for v in viols:
        if v["what"] not in seen:
            seen.add(v["what"])
            out_v.append(v)
    return core.result(sig=sig, nontrivial=nt, violations=out_v[:4], counters=counters, sample=sample)


def _clean(path: str, seed: str) -> bool:
    from mxlpy import sbml

    try:
        model = sbml.read(Path(path))
    except Exception:  # noqa: BLE001
        return False
    v, _ = compare_document(path, model, core.rng_for(seed, "states"), "twin")
    return not v


def attribute(case: dict, path: str, work: Path) -> str | None:
    """Ablation chain: remove one known mechanism after the other; the step at which the document imports
    correctly names the finding. Still failing after all steps -> new violation (None)."""
    seed = case["seed"]
    cur = path
    if case["hostile"]:
        plain = str(work / f"twinA_{core.sha(seed)}.xml")
        gen_sbml.gen_document(core.rng_for(seed), plain, hostile_ids=False)
        cur = plain
        if _clean(cur, seed):
            return "C17-python-keyword-identifiers"
    nxt = str(work / f"twinB_{core.sha(seed)}.xml")
    if gen_sbml.twin_without_species_initial_assignments(cur, nxt):
        cur = nxt
        if _clean(cur, seed):
            return "C17-initial-assignment-on-species"
    nxt = str(work / f"twinC_{core.sha(seed)}.xml")
    if gen_sbml.twin_with_uniform_declarations(cur, nxt):
        cur = nxt
        if _clean(cur, seed):
            return "C17-mixed-amount-and-concentration-species"
    return None


def mech_read(info: dict, e: Exception) -> str | None:
    return None


def finalize(results: list[dict], tier: str, counters) -> dict:  # noqa: ANN001
    inc = []
    for k in ("documents_imported", "states_compared", "pair_sessions_compared"):
        if not counters.get(k):
            inc.append(f"monitor '{k}' never evaluated")
    return {"inconclusive": inc}
