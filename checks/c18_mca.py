"""C18 — control coefficients equal analytic sensitivities; model left untouched.

Oracle: power-law networks v = k * prod x_i^{n_i}: scaled variable elasticities
are the kinetic orders exactly, parameter elasticities and steady-state
response coefficients have closed forms.  Monitors: before/after snapshot of
the caller's model (exact comparison), sequential vs parallel (1/2/16 workers).
"""

from __future__ import annotations

import copy
import math
import os

import numpy as np
import pandas as pd

from mon import core
from mon import refmodel as rm
from mon.fnlib import basic as fl

LEVEL = "exploration"
RULE = (
    "power-law chains  -> x -> y ->  with orders in {1/2, 1, 2} and optional product inhibition (order -1), random "
    "rate constants and states; variable_elasticities / parameter_elasticities (normalized and not, to_scan subsets, "
    "variables given or default), response_coefficients (sequential and parallel with 1/2/16 workers, variables given "
    "or not) and the mc.* wrappers on 3 parameter draws. non-trivial = network has a non-unit order or inhibition; "
    "distinct = case hash"
)
ASSUMPTIONS = [
    "central differences at relative step 1e-4: tolerance 1e-6 for elasticities; response coefficients inherit the steady-state solver error amplified by 1/2e-4: tolerance 2e-2",
]
N = {"quick": 120, "thorough": 7500}
MIN_NONTRIVIAL = {"quick": 20, "thorough": 300}
WORKERS = {"quick": 8, "thorough": 8}
CASE_TIMEOUT = 600


def gen_cases(tier: str, seed: int) -> list[dict]:
    n = max(6, int(N[tier] * float(os.environ.get("VERIF_SCALE", "1"))))
    return [{"seed": f"{seed}:C18:{i}", "part": ["elasticities", "response", "mc"][i % 3]} for i in range(n)]


def gen_net(rng, ia_start: bool = False, time_factor: bool = False) -> dict:  # noqa: ANN001
    a = rng.choice([0.5, 1.0, 2.0])
    b = rng.choice([0.5, 1.0, 2.0])
    inhib = rng.random() < 0.4
    p = {"kin": round(rng.uniform(0.5, 2.0), 3), "k1": round(rng.uniform(0.5, 2.0), 3), "k2": round(rng.uniform(0.5, 2.0), 3), "a": a, "b": b}
    if not ia_start and a >= 1.0 and b >= 1.0 and rng.random() < 0.5:
        # a network with a small throughput (fluxes of order 1e-3); kinetic orders below one are left out: their steady
        # states lie at 1e-6 next to a square-root singularity, where the search itself fails (a visible failure, not a result)
        p["kin"] = round(p["kin"] * 1e-3, 6)
    comps = [{"kind": "parameter", "name": k, "value": v} for k, v in p.items()]
    derived_k1 = not ia_start and rng.random() < 0.4
    if derived_k1:
        # the rate constant of v1 is a derived parameter k1d = 0.7 k1 + 0.3 of the parameter k1 that the routines scan
        comps.append({"kind": "derived", "name": "k1d", "fn": fl.ref(fl.lin1), "args": ["k1"]})
        p["dk1"] = True
    if inhib:
        comps.append({"kind": "parameter", "name": "ni", "value": -1.0})
        p["ni"] = -1.0
    y0 = {"x": round(rng.uniform(0.5, 2.0), 3), "y": round(rng.uniform(0.5, 2.0), 3)}
    if ia_start:
        # y(0) := mul2(k1, kin): the default state then depends on parameters that the routines displace; an elasticity is still
        # the partial derivative at the state as it is before anything is displaced
        y0["y"] = fl.mul2(p["k1"], p["kin"])
        comps.append({"kind": "variable", "name": "x", "value": y0["x"]})
        comps.append({"kind": "variable", "name": "y", "ia": {"fn": fl.ref(fl.mul2), "args": ["k1", "kin"]}})
    else:
        comps += [{"kind": "variable", "name": v, "value": y0[v]} for v in ("x", "y")]
    comps.append({"kind": "reaction", "name": "vin", "fn": fl.ref(fl.pl0), "args": ["kin"], "stoich": {"x": 1}})
    if inhib:
        comps.append({"kind": "reaction", "name": "v1", "fn": fl.ref(fl.pl2), "args": ["k1d" if derived_k1 else "k1", "x", "a", "y", "ni"], "stoich": {"x": -1, "y": 1}})
    else:
        comps.append({"kind": "reaction", "name": "v1", "fn": fl.ref(fl.pl1), "args": ["k1d" if derived_k1 else "k1", "x", "a"], "stoich": {"x": -1, "y": 1}})
    if time_factor:
        comps.append({"kind": "reaction", "name": "v2", "fn": fl.ref(fl.pl1t), "args": ["k2", "y", "b", "time"], "stoich": {"y": -1}})
    else:
        comps.append({"kind": "reaction", "name": "v2", "fn": fl.ref(fl.pl1), "args": ["k2", "y", "b"], "stoich": {"y": -1}})
    return {"spec": {"components": comps}, "params": p, "y0": y0, "inhib": inhib}


def eff(p: dict) -> dict:
    """Parameters as the formulas below use them: k1 is the constant v1 runs with; raw[q] is the value of the parameter that is
    scanned, chain = d ln(k1 effective) / d ln(k1 scanned) (1 unless the constant is the derived parameter 0.7 k1 + 0.3)."""
    if "raw" in p:
        return p
    raw = {k: v for k, v in p.items() if k not in ("dk1", "tfac")}
    if "tfac" in p:
        raw_t = {"tfac": p["tfac"]}
    else:
        raw_t = {}
    if p.get("dk1"):
        k1e = fl.lin1(p["k1"])
        return {**raw, **raw_t, "k1": k1e, "raw": raw, "chain": 0.7 * p["k1"] / k1e}
    return {**raw, **raw_t, "raw": raw, "chain": 1.0}


def fluxes(p: dict, st: dict, inhib: bool) -> dict:
    p = eff(p)
    v1 = p["k1"] * st["x"] ** p["a"] * (st["y"] ** p["ni"] if inhib else 1.0)
    return {"vin": p["kin"], "v1": v1, "v2": p["k2"] * st["y"] ** p["b"] * p.get("tfac", 1.0)}


def var_elast(p: dict, st: dict, inhib: bool, normalized: bool) -> dict:
    """{variable: {flux: coefficient}}"""
    p = eff(p)
    f = fluxes(p, st, inhib)
    e = {"x": {"vin": 0.0, "v1": p["a"], "v2": 0.0}, "y": {"vin": 0.0, "v1": p["ni"] if inhib else 0.0, "v2": p["b"]}}
    if normalized:
        return e
    return {v: {r: e[v][r] * f[r] / st[v] for r in f} for v in e}


def par_elast(p: dict, st: dict, inhib: bool, normalized: bool) -> dict:
    p = eff(p)
    f = fluxes(p, st, inhib)
    e = {
        "kin": {"vin": 1.0, "v1": 0.0, "v2": 0.0}, "k1": {"vin": 0.0, "v1": p["chain"], "v2": 0.0}, "k2": {"vin": 0.0, "v1": 0.0, "v2": 1.0},
        "a": {"vin": 0.0, "v1": p["a"] * math.log(st["x"]), "v2": 0.0}, "b": {"vin": 0.0, "v1": 0.0, "v2": p["b"] * math.log(st["y"])},
    }
    if inhib:
        e["ni"] = {"vin": 0.0, "v1": p["ni"] * math.log(st["y"]), "v2": 0.0}  # a parameter with a negative value
    if normalized:
        return e
    return {q: {r: e[q][r] * f[r] / p["raw"][q] for r in f} for q in e}


def steady(p: dict, inhib: bool) -> dict:
    p = eff(p)
    y = (p["kin"] / p["k2"]) ** (1 / p["b"])
    x = (p["kin"] * (y if inhib else 1.0) / p["k1"]) ** (1 / p["a"])
    return {"x": x, "y": y}


def response(p: dict, inhib: bool, normalized: bool) -> tuple[dict, dict]:
    """Scaled: d ln x*/d ln q.  ({param: {var: R}}, {param: {flux: R}})"""
    p = eff(p)
    a, b = p["a"], p["b"]
    ry = {"kin": 1 / b, "k2": -1 / b, "k1": 0.0}
    i = 1.0 if inhib else 0.0
    rx = {"kin": (1 + i * ry["kin"]) / a, "k2": (i * ry["k2"]) / a, "k1": -p["chain"] / a}
    rv = {q: {"x": rx[q], "y": ry[q]} for q in ("kin", "k1", "k2")}
    rf = {q: {r: (1.0 if q == "kin" else 0.0) for r in ("vin", "v1", "v2")} for q in ("kin", "k1", "k2")}
    if normalized:
        return rv, rf
    ss = steady(p, inhib)
    f = fluxes(p, ss, inhib)
    return ({q: {v: rv[q][v] * ss[v] / p["raw"][q] for v in ss} for q in rv}, {q: {r: rf[q][r] * f[r] / p["raw"][q] for r in f} for q in rf})


def gen_moiety(rng) -> dict:  # noqa: ANN001
    """Closed A <-> B: the steady state depends on where the simulation starts (conserved total)."""
    p = {"k1": round(rng.uniform(0.5, 2.0), 3), "k2": round(rng.uniform(0.5, 2.0), 3)}
    y0 = {"A": round(rng.uniform(0.5, 2.0), 3), "B": round(rng.uniform(0.5, 2.0), 3)}
    comps = [{"kind": "parameter", "name": k, "value": v} for k, v in p.items()]
    comps += [{"kind": "variable", "name": v, "value": y0[v]} for v in ("A", "B")]
    comps.append({"kind": "reaction", "name": "v1", "fn": fl.ref(fl.ma1), "args": ["k1", "A"], "stoich": {"A": -1, "B": 1}})
    comps.append({"kind": "reaction", "name": "v2", "fn": fl.ref(fl.ma1), "args": ["k2", "B"], "stoich": {"B": -1, "A": 1}})
    return {"spec": {"components": comps}, "params": p, "y0": y0}


def response_moiety(p: dict, total: float, normalized: bool) -> tuple[dict, dict]:
    k1, k2 = p["k1"], p["k2"]
    s = k1 + k2
    rv = {"k1": {"A": -k1 / s, "B": k2 / s}, "k2": {"A": k1 / s, "B": -k2 / s}}
    rf = {"k1": {"v1": k2 / s, "v2": k2 / s}, "k2": {"v1": k1 / s, "v2": k1 / s}}
    if normalized:
        return rv, rf
    ss = {"A": k2 * total / s, "B": k1 * total / s}
    v = k1 * ss["A"]
    return ({q: {x: rv[q][x] * ss[x] / p[q] for x in ss} for q in rv}, {q: {r: rf[q][r] * v / p[q] for r in ("v1", "v2")} for q in rf})


COMPARED = [0]


def _total_minus_one(tot: float) -> float:
    return tot - 1.0


def _moiety_with_assigned_start(rng, counters: dict) -> list[dict]:  # noqa: ANN001
    """A <-> B with a conserved total; B starts at `tot - 1` (an initial assignment), A's start is overridden through
    `variables=` (a partial override): the steady state depends on `tot` only through the assigned start value, which has to
    be resolved again for every displaced parameter value."""
    from mxlpy import InitialAssignment, Model, mca

    k1, k2, tot, a0 = (round(rng.uniform(0.5, 3.0), 3) for _ in range(4))
    tot += 1.0
    m = Model()
    m.add_parameters({"k1": k1, "k2": k2, "tot": tot})
    m.add_variable("A", 1.0)
    m.add_variable("B", InitialAssignment(fn=_total_minus_one, args=["tot"]))
    m.add_reaction("vf", fl.ma1, args=["k1", "A"], stoichiometry={"A": -1, "B": 1})
    m.add_reaction("vr", fl.ma1, args=["k2", "B"], stoichiometry={"B": -1, "A": 1})
    total = a0 + tot - 1.0
    exp = {"tot": {"A": k2 / (k1 + k2), "B": k1 / (k1 + k2)},
           "k1": {"A": -k2 * total / (k1 + k2) ** 2, "B": k2 * total / (k1 + k2) ** 2}}
    ctx = {"network": "A <-> B, B(0) = tot - 1 assigned, A(0) given through variables=", "parameters": {"k1": k1, "k2": k2, "tot": tot}, "variables": {"A": a0}}
    out: list[dict] = []
    for par in (False, True):
        rc = mca.response_coefficients(m, to_scan=["tot", "k1"], variables={"A": a0}, normalized=False, disable_tqdm=True, parallel=par)
        out += cmp_table(rc.variables, exp, 2e-2, "concentration response coefficient differs from the analytic steady-state sensitivity (start value assigned from the displaced parameter)", {"parallel": par, **ctx})
    counters["response:conserved_total_with_a_start_value_assigned_from_the_displaced_parameter"] = 1
    return out


def cmp_table(df: pd.DataFrame, exp: dict, tol: float, what: str, ctx: dict) -> list[dict]:
    out = []
    for col, rows in exp.items():
        if col not in df.columns:
            out.append(core.viol("coefficient table lacks an expected column", None, column=col, columns=[str(x) for x in df.columns], rows=[str(x) for x in df.index], checking=what, **ctx))
            return out
        for r, e in rows.items():
            COMPARED[0] += 1
            g = float(df.loc[r, col])
            if not (abs(g - e) <= tol * max(1.0, abs(e))):
                out.append(core.viol(what, None, column=col, row=r, got=g, expected=e, **ctx))
                return out
    return out


def snapshot(model) -> dict:  # noqa: ANN001
    return {"parameters": {k: repr(v.value) for k, v in model.get_raw_parameters(as_copy=False).items()},
            "variables": {k: repr(v.initial_value) for k, v in model.get_raw_variables(as_copy=False).items()},
            "parameter_values": dict(model.get_parameter_values()), "initial_conditions": dict(model.get_initial_conditions())}


def run_case(case: dict) -> dict:
    from mxlpy import mc, mca

    rng = core.rng_for(case["seed"])
    moiety = case["part"] == "response" and rng.random() < 0.4
    ia_start = case["part"] == "elasticities" and rng.random() < 0.4
    time_factor = case["part"] == "elasticities" and rng.random() < 0.4
    net = gen_moiety(rng) if moiety else gen_net(rng, ia_start, time_factor)
    model = rm.build(net["spec"])
    p, inhib = net["params"], net.get("inhib", False)
    viols: list[dict] = []
    counters: dict[str, int] = {f"part:{case['part']}": 1, "scanned_parameter_feeds_a_derived_parameter": int(bool(net["params"].get("dk1"))), "parameter_with_negative_value_scanned": int(case["part"] == "elasticities" and net.get("inhib", False)), "default_state_defined_by_an_initial_assignment_on_scanned_parameters": int(ia_start)}
    ctx = {"params": p, "y0": net["y0"], "inhibition": inhib}
    before = snapshot(model)

    def untouched(label: str) -> None:
        after = snapshot(model)
        counters["model_snapshots_compared"] = counters.get("model_snapshots_compared", 0) + 1
        if after != before:
            diff = {k: {"before": before[k], "after": after[k]} for k in before if before[k] != after[k]}
            viols.append(core.viol("routine changed the caller's model", None, routine=label, changed=diff, **ctx))
            # restore for the following routines
            model.update_parameters(before["parameter_values"])
            model.update_variables(net["y0"])

    if case["part"] == "elasticities":
        for normalized in (True, False):
            for given in (False, True):
                st = {"x": round(rng.uniform(0.5, 2.5), 3), "y": round(rng.uniform(0.5, 2.5), 3)} if given else dict(net["y0"])
                if given:
                    # concentrations in other units (micromolar amounts written in molar): a kinetic order has no units
                    unit = rng.choice([1.0, 1.0, 1e-3, 1e-5, 2e-6, 1e3])
                    st = {k: v * unit for k, v in st.items()}
                    counters[f"elasticities at a state of magnitude {unit:g}"] = counters.get(f"elasticities at a state of magnitude {unit:g}", 0) + 1
                sub = rng.random() < 0.4
                tkw, p_t = {}, p
                if time_factor:
                    # the rate of v2 drifts in time: elasticities asked for at a later time are taken there
                    t_el = rng.choice([1.0, 2.5, 4.0])
                    tkw, p_t = {"time": t_el}, {**p, "tfac": 1.0 + 0.5 * t_el}
                    counters["elasticities_at_a_later_time_of_a_time_dependent_rate"] = counters.get("elasticities_at_a_later_time_of_a_time_dependent_rate", 0) + 1
                ve = mca.variable_elasticities(model, variables=st if given else None, normalized=normalized, to_scan=["y"] if sub else None, **tkw)
                untouched("variable_elasticities")
                exp = var_elast(p_t, st, inhib, normalized)
                if sub:
                    exp = {"y": exp["y"]}
                    if list(ve.columns) != ["y"]:
                        viols.append(core.viol("to_scan subset not respected", None, columns=list(ve.columns), **ctx))
                viols += cmp_table(ve, exp, 1e-6, "variable elasticity differs from the analytic partial derivative / kinetic order", {"normalized": normalized, "state": st, **ctx})
                allp = ["kin", "k1", "k2", "a", "b"] + (["ni"] if inhib else [])
                scan = rng.sample(allp, rng.randint(1, len(allp))) if sub else allp
                pe = mca.parameter_elasticities(model, variables=st if given else None, normalized=normalized, to_scan=scan, **tkw)
                untouched("parameter_elasticities")
                exp = {q: v for q, v in par_elast(p_t, st, inhib, normalized).items() if q in scan}
                # a central difference over a relative displacement h of a parameter with (scaled) elasticity e is off by a
                # relative (h e)^2 / 6: for an exponent at a concentration of 1e-6, e = n ln(1e-6) = -28 and that is 1e-6
                emax = max(abs(x) for q, v in par_elast(p_t, st, inhib, True).items() if q in scan for x in v.values())
                viols += cmp_table(pe, exp, 1e-6 + (1e-4 * emax) ** 2, "parameter elasticity differs from the analytic partial derivative", {"normalized": normalized, "state": st, **ctx})
                counters["elasticity_tables"] = counters.get("elasticity_tables", 0) + 2
    elif case["part"] == "response":
        normalized = rng.random() < 0.6
        given = rng.random() < 0.5
        st = {"x": round(rng.uniform(0.5, 2.5), 3), "y": round(rng.uniform(0.5, 2.5), 3)} if given else None
        if moiety:
            # the start state carries a different conserved total than the model's initial values
            st = {"A": round(rng.uniform(0.5, 3.0), 3), "B": round(rng.uniform(0.5, 3.0), 3)} if given else None
            rv, rf = response_moiety(p, sum((st or net["y0"]).values()), normalized)
            counters["response:conserved_moiety" + ("(start state given)" if given else "")] = 1
        else:
            if (given and rng.random() < 0.5) or p["kin"] < 0.01:
                # the analysis is started at the reference steady state itself (the usual way to call it)
                given = True
                st = steady(p, inhib)
                counters["response:started_at_the_reference_steady_state" + ("(small throughput)" if p["kin"] < 0.01 else "")] = 1
            rv, rf = response(p, inhib, normalized)
        results = {}
        for mode, kw in (("sequential", {"parallel": False}), ("parallel", {"parallel": True, "max_workers": rng.choice([1, 2, 16])})):
            rc = mca.response_coefficients(model, to_scan=["k1", "k2"] if moiety else ["kin", "k1", "k2"], variables=st, normalized=normalized, disable_tqdm=True, **kw)
            untouched(f"response_coefficients({mode}, variables {'given' if given else 'default'})")
            results[mode] = rc
            # (with a throughput of 1e-3 the displaced steady states differ by 1e-7, next to the search's own tolerance of 1e-6:
            # the difference quotient is good to a few per cent at best there; the coarse tolerance still tells 0 from 1)
            tol_rc = 2e-2 if moiety or p["kin"] >= 0.01 else 0.25
            viols += cmp_table(rc.variables, rv, tol_rc, "concentration response coefficient differs from the analytic steady-state sensitivity", {"normalized": normalized, "mode": mode, **ctx})
            viols += cmp_table(rc.fluxes, rf, tol_rc, "flux response coefficient differs from the analytic steady-state sensitivity", {"normalized": normalized, "mode": mode, **ctx})
            counters[f"response:{mode}"] = 1
        if not moiety and not p.get("dk1") and rng.random() < 0.4:
            # a structurally different network with the same parameter names, values and initial values, analysed in the same
            # process right afterwards: v2 consumes two y. Its (unscaled) coefficients are its own.
            spec_b = copy.deepcopy(net["spec"])
            for c in spec_b["components"]:
                if c["kind"] == "reaction" and c["name"] == "v2":
                    c["stoich"] = {"y": -2}
            model_b = rm.build(spec_b)
            yb = (p["kin"] / (2.0 * p["k2"])) ** (1 / p["b"])
            xb = (p["kin"] * (yb if inhib else 1.0) / p["k1"]) ** (1 / p["a"])
            ssb = {"x": xb, "y": yb}
            fb = {"vin": p["kin"], "v1": p["kin"], "v2": p["kin"] / 2.0}
            rv_s, rf_s = response(p, inhib, True)
            rvb = {q: {v: rv_s[q][v] * ssb[v] / p[q] for v in ssb} for q in rv_s}
            rfb = {q: {r: rf_s[q][r] * fb[r] / p[q] for r in fb} for q in rf_s}
            rcb = mca.response_coefficients(model_b, to_scan=["kin", "k1", "k2"], variables=st, normalized=False, disable_tqdm=True, parallel=rng.random() < 0.3)
            viols += cmp_table(rcb.variables, rvb, 2e-2, "concentration response coefficient of a second network (same parameter values, other structure) differs from its analytic sensitivity", {"normalized": False, **ctx})
            viols += cmp_table(rcb.fluxes, rfb, 2e-2, "flux response coefficient of a second network (same parameter values, other structure) differs from its analytic sensitivity", {"normalized": False, **ctx})
            counters["response:second_network_same_values_other_structure"] = 1
        r_ia = core.rng_for(str(ctx.get("seed", "")) + repr(sorted(p.items())) + ":moiety_ia")
        if r_ia.random() < 0.4:
            viols += _moiety_with_assigned_start(r_ia, counters)
        a, b = results["sequential"], results["parallel"]
        if not (np.allclose(a.variables.to_numpy(float), b.variables[a.variables.columns].loc[a.variables.index].to_numpy(float), rtol=1e-9, atol=1e-12)
                and np.allclose(a.fluxes.to_numpy(float), b.fluxes[a.fluxes.columns].loc[a.fluxes.index].to_numpy(float), rtol=1e-9, atol=1e-12)):
            viols.append(core.viol("sequential and parallel response coefficients differ", None, sequential=a.variables.to_dict(), parallel=b.variables.to_dict(), **ctx))
    else:
        draws = pd.DataFrame({"k1": [round(rng.uniform(0.5, 2.0), 3) for _ in range(3)], "k2": [round(rng.uniform(0.5, 2.0), 3) for _ in range(3)]})
        st = {"x": round(rng.uniform(0.5, 2.5), 3), "y": round(rng.uniform(0.5, 2.5), 3)}
        normalized = rng.random() < 0.6
        mw = rng.choice([1, 2, 16])
        ve = mc.variable_elasticities(model, mc_to_scan=draws, variables=st, normalized=normalized, max_workers=mw)
        untouched("mc.variable_elasticities")
        pe = mc.parameter_elasticities(model, mc_to_scan=draws, to_scan=["kin", "k1", "k2"], variables=st, normalized=normalized, max_workers=mw)
        untouched("mc.parameter_elasticities")
        rc = mc.response_coefficients(model, mc_to_scan=draws, to_scan=["kin", "k1"], normalized=normalized, max_workers=mw, disable_tqdm=True)
        untouched("mc.response_coefficients")
        for i, row in draws.iterrows():
            pp = p | row.to_dict()
            viols += cmp_table(ve.loc[i], var_elast(pp, st, inhib, normalized), 1e-6, "mc variable elasticity differs for a draw", {"draw": row.to_dict(), "normalized": normalized, **ctx})
            viols += cmp_table(pe.loc[i], {q: v for q, v in par_elast(pp, st, inhib, normalized).items() if q in ("kin", "k1", "k2")}, 1e-6, "mc parameter elasticity differs for a draw", {"draw": row.to_dict(), **ctx})
            rv, rf = response(pp, inhib, normalized)
            viols += cmp_table(rc.variables.loc[i], {q: rv[q] for q in ("kin", "k1")}, 2e-2 if p["kin"] >= 0.01 else 0.25, "mc response coefficient differs for a draw", {"draw": row.to_dict(), "normalized": normalized, **ctx})
        counters["mc_draws"] = 3
    counters["coefficients_compared"] = COMPARED[0]
    COMPARED[0] = 0
    nt = moiety or inhib or p["a"] != 1.0 or p["b"] != 1.0
    return core.result(sig=core.sha([net["spec"], case["part"]]), nontrivial=nt, violations=viols[:4], counters=counters,
                       sample={"part": case["part"], **ctx} if case.get("idx", 0) < 3 else None)


def finalize(results: list[dict], tier: str, counters) -> dict:  # noqa: ANN001
    inc = []
    for k in ("elasticity_tables", "response:sequential", "response:parallel", "mc_draws", "model_snapshots_compared"):
        if not counters.get(k):
            inc.append(f"monitor '{k}' never evaluated")
    return {"inconclusive": inc}
