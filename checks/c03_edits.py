"""C03 — edit histories: answers depend only on the model's current content.

History checker: a sequence of public mutators (hostile arguments) and queries
runs on the real Model; a mirror (plain-data spec) is updated by a sequential
specification of each edit.  After every step the full observable set of the
edited model is compared with a *freshly built* model of the mirror's content
(built through plain add_* calls) and, for values, with the reference
evaluator.  A rejected edit must leave every observable unchanged.
"""

from __future__ import annotations

import contextlib
import copy
import os
import traceback
from typing import Any

import pandas as pd

from mon import core
from mon import refmodel as rm
from mon.fnlib import basic as fl

LEVEL = "exploration"
RULE = (
    "random histories (2..14 steps) over all public Model mutators (add/update/remove/scale/plural forms, "
    "make_parameter_dynamic, make_variable_static, surrogates, data, readouts) with hostile arguments (names of "
    "another kind, 'time', just-removed, unknown, colliding surrogate outputs, unknown reaction), interleaved with "
    "cache-populating queries; plus the enumerated layer: every (query) -> (mutator with valid / invalid argument) "
    "triple on a rich base model. non-trivial = a mutator ran while the internal cache was populated; distinct = "
    "history hash"
)
ASSUMPTIONS = [
    "sequential specification of each edit (mirror) written from the docstrings: duplicates / 'time' / unknown names are rejected, everything else accepted",
    "observables compared: ids, name lists per kind (ordered), parameter values, initial conditions, derived classification, argument table incl. readouts, fluxes, right-hand side, positional call, stoichiometries; exceptions by type",
]
N = {"quick": 1500, "thorough": 100000}
MIN_NONTRIVIAL = {"quick": 100, "thorough": 2000}
KINDS = ("parameter", "variable", "derived", "reaction", "readout", "surrogate", "data")


# --------------------------------------------------------------------------
# mirror helpers
# --------------------------------------------------------------------------


def names_of(spec: dict, kind: str) -> list[str]:
    return [c["name"] for c in spec["components"] if c["kind"] == kind]


def find(spec: dict, kind: str, name: str) -> dict | None:
    for c in spec["components"]:
        if c["kind"] == kind and c["name"] == name:
            return c
    return None


def namespace(spec: dict) -> set[str]:
    ns = set()
    for c in spec["components"]:
        ns.add(c["name"])
        if c["kind"] == "surrogate":
            ns.update(c["outputs"])
    return ns


def _strip_var(spec: dict, var: str) -> None:
    for c in spec["components"]:
        if c["kind"] == "reaction":
            c["stoich"].pop(var, None)
        elif c["kind"] == "surrogate":
            for st in c["stoich"].values():
                st.pop(var, None)


def apply_spec(spec: dict, op: dict) -> tuple[bool, dict]:
    """Sequential specification. Returns (expected_reject, new_spec)."""
    s = copy.deepcopy(spec)
    ns = namespace(s)
    o = op["op"]

    def reject() -> tuple[bool, dict]:
        return True, spec

    def add_ok(name: str) -> bool:
        return name != "time" and name not in ns

    if o in ("add_parameter", "add_variable"):
        kind = o[4:]
        if not add_ok(op["name"]):
            return reject()
        c = {"kind": kind, "name": op["name"]}
        c.update({"ia": op["ia"]} if "ia" in op else {"value": op["value"]})
        s["components"].append(c)
    elif o in ("add_derived", "add_readout"):
        if not add_ok(op["name"]):
            return reject()
        s["components"].append({"kind": o[4:], "name": op["name"], "fn": op["fn"], "args": op["args"]})
    elif o == "add_reaction":
        if not add_ok(op["name"]):
            return reject()
        s["components"].append({"kind": "reaction", "name": op["name"], "fn": op["fn"], "args": op["args"], "stoich": op["stoich"]})
    elif o == "add_surrogate":
        allnames = [op["name"], *op["outputs"]]
        if any(not add_ok(n) for n in allnames) or len(set(allnames)) != len(allnames):
            return reject()
        s["components"].append({"kind": "surrogate", "name": op["name"], "fn": op["fn"], "args": op["args"], "outputs": op["outputs"], "stoich": op["stoich"]})
    elif o == "add_data":
        if not add_ok(op["name"]):
            return reject()
        s["components"].append({"kind": "data", "name": op["name"], "values": op["values"]})
    elif o.startswith("remove_") and not o.endswith("s"):
        kind = o[7:]
        c = find(s, kind, op["name"])
        if c is None:
            return reject()
        s["components"].remove(c)
        if kind == "variable" and op.get("keep_stoichiometries") is not True:
            _strip_var(s, op["name"])
    elif o in ("update_parameter", "update_variable"):
        c = find(s, o[7:], op["name"])
        if c is None:
            return reject()
        c.pop("value", None)
        c.pop("ia", None)
        c.update({"ia": op["ia"]} if "ia" in op else {"value": op["value"]})
    elif o in ("update_derived", "update_reaction"):
        c = find(s, o[7:], op["name"])
        if c is None:
            return reject()
        for k in ("fn", "args", "stoich"):
            if k in op:
                c[k] = op[k]
    elif o == "update_surrogate":
        c = find(s, "surrogate", op["name"])
        if c is None:
            return reject()
        if "outputs" in op:
            others = ns - set(c["outputs"])
            if any(n in others or n == "time" for n in op["outputs"]) or len(set(op["outputs"])) != len(op["outputs"]):
                return reject()
        for k in ("fn", "args", "outputs", "stoich"):
            if k in op:
                c[k] = op[k]
    elif o == "update_data":
        c = find(s, "data", op["name"])
        if c is None:
            return reject()
        c["values"] = op["values"]
    elif o == "scale_parameter":
        c = find(s, "parameter", op["name"])
        if c is None:
            return reject()
        if "ia" in c:
            try:
                ref = rm.Ref(s)
            except Exception:  # noqa: BLE001
                return reject()
            try:
                cur = float(ref._v0[op["name"]])  # noqa: SLF001
            except (TypeError, ValueError):
                return None, spec  # type: ignore[return-value]  # non-numeric assignment value: outside the workload
            c.pop("ia")
            c["value"] = cur * op["factor"]
        else:
            c["value"] = c["value"] * op["factor"]
    elif o == "make_parameter_dynamic":
        c = find(s, "parameter", op["name"])
        if c is None:
            return reject()
        st = op.get("stoichiometries") or {}
        fluxes = {}
        for cc in s["components"]:
            if cc["kind"] == "reaction":
                fluxes[cc["name"]] = cc["stoich"]
            elif cc["kind"] == "surrogate":
                for f, d in cc["stoich"].items():
                    if d:  # the surrogate branch uses truthiness of the existing entry
                        fluxes[f] = d
        if any(r not in fluxes for r in st):
            return reject()
        s["components"].remove(c)
        v = {"kind": "variable", "name": op["name"]}
        if op.get("initial_value") is not None:
            v["value"] = op["initial_value"]
        elif "ia" in c:
            v["ia"] = c["ia"]
        else:
            v["value"] = c["value"]
        s["components"].append(v)
        for r, coef in st.items():
            fluxes[r][op["name"]] = coef
    elif o == "make_variable_static":
        c = find(s, "variable", op["name"])
        if c is None:
            return reject()
        s["components"].remove(c)
        _strip_var(s, op["name"])
        p = {"kind": "parameter", "name": op["name"]}
        if op.get("value") is not None:
            p["value"] = op["value"]
        elif "ia" in c:
            p["ia"] = c["ia"]
        else:
            p["value"] = c["value"]
        s["components"].append(p)
    elif o in ("add_parameters", "add_variables", "update_parameters", "update_variables", "remove_parameters", "remove_variables", "scale_parameters"):
        # a plural edit is the sequence of its single edits and stops at the first rejected one (atomicity of
        # plural forms is not asserted): on rejection the mirror keeps the accepted prefix
        single = o[:-1]
        cur = s
        for it in op["items"]:
            rej, nxt = apply_spec(cur, {"op": single, **it})
            if rej is None:
                return None, spec  # type: ignore[return-value]
            if rej:
                return True, cur
            cur = nxt
        s = cur
    else:
        raise ValueError(o)
    return False, s


# --------------------------------------------------------------------------
# real model: apply op, observe
# --------------------------------------------------------------------------


def _ia(d: dict):  # noqa: ANN202
    from mxlpy import InitialAssignment

    return InitialAssignment(fn=rm.fn_of(d), args=list(d["args"]))


def _val(op: dict) -> Any:
    return _ia(op["ia"]) if "ia" in op else op["value"]


SIBLING_EDITS = [0]
CONTAINERS: dict[str, int] = {}


def _names_as(op: dict):  # noqa: ANN202
    """The names of a plural removal in the form the caller happens to have them: any iterable of names is legal."""
    names = [it["name"] for it in op["items"]]
    form = op.get("container", "list")
    CONTAINERS[form] = CONTAINERS.get(form, 0) + 1
    if form == "tuple":
        return tuple(names)
    if form == "generator":
        return (n for n in names)
    if form == "iterator":
        return iter(names)
    if form == "dict_keys":
        return dict.fromkeys(names).keys()
    if form == "filter":
        return filter(None, names)
    return names


def _mapping_as(table: dict, op: dict):  # noqa: ANN202
    """The table of a plural add / update / scale as another Mapping than a dict."""
    import collections
    import types

    form = op.get("container", "dict")
    CONTAINERS[form] = CONTAINERS.get(form, 0) + 1
    if form == "mappingproxy":
        return types.MappingProxyType(table)
    if form == "ordered":
        return collections.OrderedDict(table)
    if form == "chainmap":
        return collections.ChainMap(table)
    return table


def _table(op: dict, kind: str) -> dict:
    """The table of a plural add/update; in the object form the values are Parameter / Variable objects."""
    from mxlpy.types import Parameter, Variable

    if "objects" not in op:
        return {it["name"]: _val(it) for it in op["items"]}
    mk = (lambda v: Parameter(value=v)) if kind == "parameter" else (lambda v: Variable(initial_value=v))
    if op["objects"] == "shared":
        one = mk(_val(op["items"][0]))
        return {it["name"]: one for it in op["items"]}
    return {it["name"]: mk(_val(it)) for it in op["items"]}


def _use_table_elsewhere(table: dict, kind: str) -> None:
    """The caller goes on using the table given to the model: builds a second model from it and edits that one."""
    from mxlpy import Model

    sib = Model()
    names = list(table)
    with contextlib.suppress(Exception):
        if kind == "parameter":
            sib.add_parameters(table)
            sib.update_parameter(names[0], 77.0)
            sib.scale_parameter(names[-1], 3.0)
        else:
            sib.add_variables(table)
            sib.update_variable(names[0], 77.0)
            sib.update_variables({names[-1]: 55.0})
        SIBLING_EDITS[0] += 1


def apply_real(model, op: dict) -> None:  # noqa: ANN001
    from mxlpy.surrogates.abstract import MockSurrogate

    o = op["op"]
    if o in ("add_parameter", "add_variable", "add_derived", "add_reaction", "add_readout", "add_surrogate", "add_data"):
        c = {k: v for k, v in op.items() if k != "op"}
        c["kind"] = o[4:]
        rm.add_component(model, c)
    elif o == "remove_variable" and op.get("keep_stoichiometries") is True:
        model.remove_variable(op["name"], remove_stoichiometries=False)
    elif o.startswith("remove_") and not o.endswith("s"):
        getattr(model, o)(op["name"])
    elif o == "update_parameter":
        model.update_parameter(op["name"], _val(op))
    elif o == "update_variable":
        model.update_variable(op["name"], _val(op))
    elif o == "update_derived":
        model.update_derived(op["name"], rm.fn_of(op) if "fn" in op else None, args=list(op["args"]) if "args" in op else None)
    elif o == "update_reaction":
        st_ = {k: rm._coef_real(v) for k, v in op["stoich"].items()} if "stoich" in op else None  # noqa: SLF001
        try:
            model.update_reaction(op["name"], rm.fn_of(op) if "fn" in op else None, args=list(op["args"]) if "args" in op else None, stoichiometry=st_)
        finally:
            if st_ is not None:
                rm.caller_goes_on_using(st_)
    elif o == "update_surrogate":
        sur = None
        if "fn" in op:
            sur = MockSurrogate(fn=rm.fn_of(op), args=list(op["args"]), outputs=list(op["outputs"]),
                                stoichiometries={f: {k: rm._coef_real_surrogate(v) for k, v in st.items()} for f, st in op["stoich"].items()})  # noqa: SLF001
            model.update_surrogate(op["name"], sur)
        else:
            model.update_surrogate(
                op["name"], None, args=list(op["args"]) if "args" in op else None,
                outputs=list(op["outputs"]) if "outputs" in op else None,
                stoichiometries={f: {k: rm._coef_real_surrogate(v) for k, v in st.items()} for f, st in op["stoich"].items()} if "stoich" in op else None,  # noqa: SLF001
            )
    elif o == "update_data":
        model.update_data(op["name"], pd.Series(op["values"], dtype=float))
    elif o == "scale_parameter":
        model.scale_parameter(op["name"], op["factor"])
    elif o == "make_parameter_dynamic":
        model.make_parameter_dynamic(op["name"], op.get("initial_value"), op.get("stoichiometries"))
    elif o == "make_variable_static":
        model.make_variable_static(op["name"], op.get("value"))
    elif o == "add_parameters":
        table = _table(op, "parameter")
        try:
            model.add_parameters(_mapping_as(table, op))
        finally:
            if "objects" in op:
                _use_table_elsewhere(table, "parameter")
    elif o == "add_variables":
        table = _table(op, "variable")
        try:
            model.add_variables(_mapping_as(table, op))
        finally:
            if "objects" in op:
                _use_table_elsewhere(table, "variable")
    elif o == "update_parameters":
        table = _table(op, "parameter")
        try:
            model.update_parameters(_mapping_as(table, op))
        finally:
            if "objects" in op:
                _use_table_elsewhere(table, "parameter")
    elif o == "update_variables":
        table = _table(op, "variable")
        try:
            model.update_variables(_mapping_as(table, op))
        finally:
            if "objects" in op:
                _use_table_elsewhere(table, "variable")
    elif o == "remove_parameters":
        model.remove_parameters(_names_as(op))
    elif o == "remove_variables":
        model.remove_variables(_names_as(op))
    elif o == "scale_parameters":
        model.scale_parameters(_mapping_as({it["name"]: it["factor"] for it in op["items"]}, op))
    else:
        raise ValueError(o)


QUERIES = ["get_args", "get_right_hand_side", "get_initial_conditions", "get_parameter_values", "get_derived_parameter_names", "call", "get_fluxes"]


def run_query(model, q: str, state_vals: list[float]) -> Any:  # noqa: ANN001
    try:
        if q == "get_args":
            return model.get_args(include_readouts=True).to_dict()
        if q == "get_right_hand_side":
            return model.get_right_hand_side().to_dict()
        if q == "get_initial_conditions":
            return dict(model.get_initial_conditions())
        if q == "get_parameter_values":
            return dict(model.get_parameter_values())
        if q == "get_derived_parameter_names":
            return sorted(model.get_derived_parameter_names())
        if q == "call":
            n = len(model.get_variable_names())
            return list(model(0.5, state_vals[:n]))
        if q == "get_fluxes":
            return model.get_fluxes().to_dict()
        if q == "get_args@state":
            names = model.get_variable_names()
            return model.get_args(dict(zip(names, state_vals)), 0.75, include_readouts=True).to_dict()
        if q == "get_rhs@state":
            names = model.get_variable_names()
            return model.get_right_hand_side(dict(zip(names, state_vals)), 0.75).to_dict()
        if q == "get_stoichiometries":
            return model.get_stoichiometries().fillna(0).to_dict()
        if q == "get_derived_variable_names":
            return sorted(model.get_derived_variable_names())
        # classification and listing getters no other query goes through (each has its own walk over the
        # content or reads the cache's classification): compared as sets, their order is free
        if q == "get_unused_parameters":
            return sorted(model.get_unused_parameters())
        if q == "get_derived_parameters":
            return sorted(model.get_derived_parameters())
        if q == "get_derived_variables":
            return sorted(model.get_derived_variables())
        if q == "get_raw_readouts":
            return sorted(model.get_raw_readouts())
        if q == "get_surrogate_reaction_names":
            return sorted(model.get_surrogate_reaction_names())
        if q == "get_arg_names":
            flags = [
                "include_time", "include_variables", "include_parameters", "include_derived_parameters", "include_derived_variables",
                "include_reactions", "include_surrogate_variables", "include_surrogate_fluxes", "include_readouts",
            ]
            out = {"all": sorted(model.get_arg_names(**dict.fromkeys(flags, True)))}
            for f in flags:
                out[f] = sorted(model.get_arg_names(**{g: g == f for g in flags}))
            return out
        if q == "stoichiometries_of_variable":
            names = model.get_variable_names()
            st = dict(zip(names, state_vals))
            out = {}
            for v in names:
                try:
                    out[v] = dict(model.get_stoichiometries_of_variable(v, st, 0.75))
                except Exception as e:  # noqa: BLE001
                    out[v] = ("exc", type(e).__name__)
                try:
                    out[v + ":raw"] = sorted(model.get_raw_stoichiometries_of_variable(v))
                except Exception as e:  # noqa: BLE001
                    out[v + ":raw"] = ("exc", type(e).__name__)
            return out
        raise ValueError(q)
    except Exception as e:  # noqa: BLE001
        return ("exc", type(e).__name__)


LISTING_QUERIES = [
    "get_unused_parameters", "get_derived_parameters", "get_derived_variables", "get_raw_readouts",
    "get_surrogate_reaction_names", "get_arg_names", "stoichiometries_of_variable",
]
STATE_VALS = [0.37, 1.9, 0.81, 2.6, 1.2, 0.55, 1.7, 0.9, 2.2, 0.45, 1.1, 0.66]


def observe(model) -> dict:  # noqa: ANN001
    obs: dict[str, Any] = {
        "ids": dict(model.ids),
        "parameter_names": model.get_parameter_names(),
        "variable_names": model.get_variable_names(),
        "derived_names": list(model.get_raw_derived(as_copy=False)),
        "reaction_names": model.get_reaction_names(),
        "readout_names": model.get_readout_names(),
        "surrogate_names": list(model.get_raw_surrogates(as_copy=False)),
        "surrogate_outputs": model.get_surrogate_output_names(),
        # the content itself: which compounds every reaction / surrogate flux names (coefficients by their kind only)
        "stoichiometry_keys": {
            **{n: sorted(r.stoichiometry) for n, r in model.get_raw_reactions(as_copy=False).items()},
            **{f"{n}:{fx}": sorted(st) for n, sg in model.get_raw_surrogates(as_copy=False).items() for fx, st in sg.stoichiometries.items()},
        },
    }
    for q in [*QUERIES, "get_args@state", "get_rhs@state", "get_stoichiometries", "get_derived_variable_names", *LISTING_QUERIES]:
        obs[q] = run_query(model, q, STATE_VALS)
    return obs


def same(a: Any, b: Any) -> bool:
    if hasattr(a, "tolist"):
        a = a.tolist()
    if hasattr(b, "tolist"):
        b = b.tolist()
    if isinstance(a, dict) and isinstance(b, dict):
        return set(a) == set(b) and all(same(a[k], b[k]) for k in a)
    if isinstance(a, (list, tuple)) and isinstance(b, (list, tuple)):
        return len(a) == len(b) and all(same(x, y) for x, y in zip(a, b))
    if isinstance(a, float) or isinstance(b, float):
        try:
            fa, fb = float(a), float(b)
        except (TypeError, ValueError):
            return False
        if fa != fa and fb != fb:  # both NaN
            return True
        return core.close(fa, fb, 1e-9)
    return a == b


def diff_obs(a: dict, b: dict) -> dict:
    return {k: {"edited": a.get(k), "fresh": b.get(k)} for k in a if not same(a.get(k), b.get(k))}


# --------------------------------------------------------------------------
# workload
# --------------------------------------------------------------------------


def base_spec(rng) -> dict:  # noqa: ANN001
    """Rich base model: parameters (one by assignment), variables, derived chain, reactions with all coefficient kinds,
    a readout, a two-output surrogate, a data set."""
    comps = [
        {"kind": "parameter", "name": "k1", "value": rm.rnd_val(rng)},
        {"kind": "parameter", "name": "k2", "value": rm.rnd_val(rng)},
        {"kind": "parameter", "name": "k3", "value": rm.rnd_val(rng)},
        {"kind": "variable", "name": "x", "value": rm.rnd_val(rng)},
        {"kind": "variable", "name": "y", "value": rm.rnd_val(rng)},
        {"kind": "variable", "name": "z", "ia": {"fn": fl.ref(fl.add2), "args": ["x", "k1"]}},
        {"kind": "parameter", "name": "kq", "ia": {"fn": fl.ref(fl.mul2), "args": ["k2", "y"]}},
        {"kind": "derived", "name": "dp", "fn": fl.ref(fl.add2), "args": ["k1", "k2"]},
        {"kind": "derived", "name": "dv", "fn": fl.ref(fl.mul2), "args": ["x", "dp"]},
        {"kind": "reaction", "name": "v1", "fn": fl.ref(fl.mm2), "args": ["x", "k1"], "stoich": {"x": -1, "y": 1}},
        {"kind": "reaction", "name": "v2", "fn": fl.ref(fl.mul2), "args": ["y", "kq"], "stoich": {"y": -1, "z": "k3"}},
        {"kind": "reaction", "name": "v3", "fn": fl.ref(fl.lin1), "args": ["dv"], "stoich": {"z": {"fn": fl.ref(fl.neg1), "args": ["x"]}, "x": 0.5}},
        {"kind": "readout", "name": "ro", "fn": fl.ref(fl.div2), "args": ["x", "y"]},
        {"kind": "surrogate", "name": "sur", "fn": fl.ref(fl.s2_2), "args": ["x", "k2"], "outputs": ["so1", "so2"], "stoich": {"so1": {"y": 1.0}}},
        {"kind": "data", "name": "dat", "values": [0.5, 1.5, 2.5]},
        {"kind": "derived", "name": "dd", "fn": fl.ref(fl.dsum2), "args": ["k1", "dat"]},
        {"kind": "variable", "name": "w", "ia": {"fn": fl.ref(fl.dsum2), "args": ["k2", "dat"]}},
    ]
    return {"components": comps}


def gen_op(rng, spec: dict, removed: list[str], counter: list[int]) -> dict:  # noqa: ANN001
    """One hostile-or-valid mutator op against the current mirror."""
    ns = sorted(namespace(spec))
    counter[0] += 1
    fresh_name = f"n{counter[0]}"

    def some(kind: str) -> str | None:
        n = names_of(spec, kind)
        return rng.choice(n) if n else None

    def hostile_name(kind: str) -> str:
        """existing-of-this-kind / of another kind / time / removed / unknown"""
        r = rng.random()
        own = names_of(spec, kind)
        other = [n for n in ns if n not in own]
        if r < 0.55 and own:
            return rng.choice(own)
        if r < 0.75 and other:
            return rng.choice(other)
        if r < 0.8:
            return "time"
        if r < 0.9 and removed:
            return rng.choice(removed)
        return "ghost"

    def new_name() -> str:
        r = rng.random()
        if r < 0.6:
            return fresh_name
        if r < 0.75 and removed:
            return rng.choice(removed)
        if r < 0.95 and ns:
            return rng.choice(ns)
        return "time"

    def arg_pool() -> list[str]:
        return [n for n in ns if find(spec, "readout", n) is None and find(spec, "data", n) is None and find(spec, "surrogate", n) is None] or ["time"]

    def fn_args(lo: int = 0, hi: int = 3) -> tuple[str, list[str]]:
        ar = rng.randint(lo, hi)
        pool = arg_pool()
        return fl.ref(rng.choice(fl.BY_ARITY[ar])), [rng.choice(pool) for _ in range(ar)]

    def val_or_ia() -> dict:
        if rng.random() < 0.25:
            f, a = fn_args(0, 2)
            return {"ia": {"fn": f, "args": a}}
        return {"value": rm.rnd_val(rng)}

    def stoich() -> dict:
        vs = names_of(spec, "variable")
        if not vs:
            return {}
        out = {}
        for v in rng.sample(vs, rng.randint(1, min(2, len(vs)))):
            r = rng.random()
            ps = names_of(spec, "parameter")
            if r < 0.6 or not ps:
                out[v] = rng.choice([-1, 1, 2, -0.5])
            elif r < 0.8:
                out[v] = rng.choice(ps)
            else:
                f, a = fn_args(1, 2)
                out[v] = {"fn": f, "args": a}
        return out

    kinds = [
        "add_parameter", "add_variable", "add_derived", "add_reaction", "add_readout", "add_surrogate", "add_data",
        "remove_parameter", "remove_variable", "remove_derived", "remove_reaction", "remove_readout", "remove_surrogate", "remove_data",
        "update_parameter", "update_variable", "update_derived", "update_reaction", "update_surrogate", "update_data",
        "scale_parameter", "make_parameter_dynamic", "make_variable_static",
        "add_parameters", "add_variables", "update_parameters", "update_variables", "remove_parameters", "remove_variables", "scale_parameters",
    ]
    o = rng.choice(kinds)
    if o in ("add_parameter", "add_variable"):
        return {"op": o, "name": new_name(), **val_or_ia()}
    if o in ("add_derived", "add_readout"):
        f, a = fn_args()
        return {"op": o, "name": new_name(), "fn": f, "args": a}
    if o == "add_reaction":
        f, a = fn_args()
        return {"op": o, "name": new_name(), "fn": f, "args": a, "stoich": stoich()}
    if o == "add_surrogate":
        pool = arg_pool()
        outs = [f"{fresh_name}a", f"{fresh_name}b"]
        if rng.random() < 0.3 and ns:
            outs[rng.randint(0, 1)] = rng.choice(ns)  # colliding output (first or second)
        vs = names_of(spec, "variable")
        st = {outs[0]: {rng.choice(vs): 1.0}} if vs and rng.random() < 0.6 else {}
        return {"op": o, "name": new_name(), "fn": fl.ref(fl.s2_2), "args": [rng.choice(pool), rng.choice(pool)], "outputs": outs, "stoich": st}
    if o == "add_data":
        return {"op": o, "name": new_name(), "values": [rm.rnd_val(rng) for _ in range(3)]}
    if o.startswith("remove_") and not o.endswith("s"):
        return {"op": o, "name": hostile_name(o[7:])}
    if o in ("update_parameter", "update_variable"):
        return {"op": o, "name": hostile_name(o[7:]), **val_or_ia()}
    if o == "update_derived":
        f, a = fn_args()
        return {"op": o, "name": hostile_name("derived"), "fn": f, "args": a}
    if o == "update_reaction":
        f, a = fn_args()
        d = {"op": o, "name": hostile_name("reaction"), "fn": f, "args": a}
        if rng.random() < 0.5:
            d["stoich"] = stoich()
        return d
    if o == "update_surrogate":
        name = hostile_name("surrogate")
        pool = arg_pool()
        r = rng.random()
        if r < 0.3:
            return {"op": o, "name": name, "args": [rng.choice(pool), rng.choice(pool)]}
        outs = [f"{fresh_name}a", f"{fresh_name}b"]
        if r < 0.5:  # rename the outputs of the stored surrogate object (no new object)
            if rng.random() < 0.3 and ns:
                outs[1] = rng.choice(ns)
            return {"op": o, "name": name, "outputs": outs, "stoich": {}}
        cur = find(spec, "surrogate", name)
        if cur is not None and rng.random() < 0.3:
            outs[0] = cur["outputs"][0]  # keep one of its own outputs (legal)
        if rng.random() < 0.3 and ns:
            outs[1] = rng.choice(ns)  # possibly colliding with a foreign name
        vs = names_of(spec, "variable")
        st = {outs[1]: {rng.choice(vs): -1.0}} if vs and rng.random() < 0.6 else {}
        return {"op": o, "name": name, "fn": fl.ref(fl.s2_2), "args": [rng.choice(pool), rng.choice(pool)], "outputs": outs, "stoich": st}
    if o == "update_data":
        return {"op": o, "name": hostile_name("data"), "values": [rm.rnd_val(rng) for _ in range(3)]}
    if o == "scale_parameter":
        return {"op": o, "name": hostile_name("parameter"), "factor": rng.choice([0.5, 2.0, 1.5])}
    if o == "make_parameter_dynamic":
        d: dict = {"op": o, "name": hostile_name("parameter")}
        if rng.random() < 0.5:
            d["initial_value"] = rm.rnd_val(rng)
        if rng.random() < 0.6:
            fluxes = names_of(spec, "reaction") + [f for c in spec["components"] if c["kind"] == "surrogate" for f in c["stoich"]]
            r = rng.random()
            tgt = rng.choice(fluxes) if fluxes and r < 0.7 else "ghost_rxn"
            d["stoichiometries"] = {tgt: rng.choice([1.0, -1.0, 2.0])}
            if fluxes and rng.random() < 0.3:
                d["stoichiometries"] = {rng.choice(fluxes): 1.0, "ghost_rxn": 1.0}
        return d
    if o == "make_variable_static":
        d = {"op": o, "name": hostile_name("variable")}
        if rng.random() < 0.5:
            d["value"] = rm.rnd_val(rng)
        return d
    # plural forms: all-valid or first-invalid
    kind = "parameter" if "parameter" in o else "variable"
    own = names_of(spec, kind)
    invalid_first = rng.random() < 0.3
    items: list[dict] = []
    if o.startswith("add_"):
        nm = [f"{fresh_name}p", f"{fresh_name}q"]
        if invalid_first and ns:
            nm[0] = rng.choice(ns)
        items = [{"name": n, "value": rm.rnd_val(rng)} for n in nm]
    elif o.startswith("update_"):
        nm = rng.sample(own, min(2, len(own))) or ["ghost"]
        if invalid_first:
            nm[0] = "ghost"
        items = [{"name": n, "value": rm.rnd_val(rng)} for n in nm]
    elif o.startswith("remove_"):
        nm = rng.sample(own, min(2, len(own))) or ["ghost"]
        if invalid_first:
            nm[0] = "ghost"
        items = [{"name": n} for n in nm]
    else:
        nm = rng.sample(own, min(2, len(own))) or ["ghost"]
        if invalid_first:
            nm[0] = "ghost"
        items = [{"name": n, "factor": 2.0} for n in nm]
    container = {}
    if rng.random() < 0.6:
        container = {"container": rng.choice(["tuple", "generator", "iterator", "dict_keys", "filter"] if o.startswith("remove_") else ["mappingproxy", "ordered", "chainmap"])}
    if o.startswith(("add_", "update_")) and rng.random() < 0.5:
        # the documented other input form: Parameter / Variable objects; "shared" = one object (one value) given for every
        # name of the table, and the same table is used afterwards to build and edit a second, unrelated model
        objects = rng.choice(["separate", "shared"])
        if objects == "shared":
            for it in items:
                it["value"] = items[0]["value"]
        return {"op": o, "items": items, "objects": objects, **container}
    return {"op": o, "items": items, **container}


def triple_ops(spec: dict) -> list[dict]:
    """Deterministic list of mutator instances (valid and invalid) on the base model."""
    L = fl.ref
    ops = [
        {"op": "add_parameter", "name": "new", "value": 1.1}, {"op": "add_parameter", "name": "x", "value": 1.1}, {"op": "add_parameter", "name": "time", "value": 1.0},
        {"op": "add_parameter", "name": "so2", "value": 1.0},
        {"op": "add_variable", "name": "new", "value": 0.4}, {"op": "add_variable", "name": "k1", "value": 0.4}, {"op": "add_variable", "name": "ro", "value": 0.4},
        {"op": "add_derived", "name": "new", "fn": L(fl.add2), "args": ["x", "k1"]}, {"op": "add_derived", "name": "v1", "fn": L(fl.add2), "args": ["x", "k1"]},
        {"op": "add_reaction", "name": "new", "fn": L(fl.lin1), "args": ["y"], "stoich": {"y": -1}}, {"op": "add_reaction", "name": "dat", "fn": L(fl.lin1), "args": ["y"], "stoich": {"y": -1}},
        {"op": "add_readout", "name": "new", "fn": L(fl.lin1), "args": ["y"]}, {"op": "add_readout", "name": "sur", "fn": L(fl.lin1), "args": ["y"]},
        {"op": "add_surrogate", "name": "s2", "fn": L(fl.s2_2), "args": ["y", "k1"], "outputs": ["oa", "ob"], "stoich": {"oa": {"x": 1.0}}},
        {"op": "add_surrogate", "name": "s2", "fn": L(fl.s2_2), "args": ["y", "k1"], "outputs": ["oa", "k2"], "stoich": {}},
        {"op": "add_surrogate", "name": "k1", "fn": L(fl.s2_2), "args": ["y", "k1"], "outputs": ["oa", "ob"], "stoich": {}},
        {"op": "add_data", "name": "new", "values": [1.0, 2.0, 3.0]}, {"op": "add_data", "name": "x", "values": [1.0, 2.0, 3.0]},
        {"op": "update_parameter", "name": "k1", "value": 0.123}, {"op": "update_parameter", "name": "x", "value": 0.123}, {"op": "update_parameter", "name": "ghost", "value": 1.0},
        {"op": "update_parameter", "name": "k3", "ia": {"fn": L(fl.add2), "args": ["k1", "x"]}}, {"op": "update_parameter", "name": "kq", "value": 0.9},
        {"op": "update_variable", "name": "x", "value": 2.5}, {"op": "update_variable", "name": "k1", "value": 2.5}, {"op": "update_variable", "name": "z", "value": 0.7},
        {"op": "update_variable", "name": "y", "ia": {"fn": L(fl.lin1), "args": ["k2"]}},
        {"op": "update_derived", "name": "dp", "fn": L(fl.mul2), "args": ["k1", "x"]}, {"op": "update_derived", "name": "ghost", "fn": L(fl.mul2), "args": ["k1", "x"]},
        {"op": "update_derived", "name": "dv", "fn": L(fl.add2), "args": ["k1", "k2"]},
        {"op": "update_reaction", "name": "v1", "fn": L(fl.mul2), "args": ["y", "k2"], "stoich": {"y": -2, "x": "k3"}}, {"op": "update_reaction", "name": "x", "fn": L(fl.mul2), "args": ["y", "k2"]},
        {"op": "update_surrogate", "name": "sur", "args": ["y", "k1"]}, {"op": "update_surrogate", "name": "ghost", "args": ["y", "k1"]},
        {"op": "update_surrogate", "name": "sur", "fn": L(fl.s2_2), "args": ["y", "k1"], "outputs": ["so1", "so3"], "stoich": {"so3": {"x": -1.0}}},
        {"op": "update_surrogate", "name": "sur", "fn": L(fl.s2_2), "args": ["y", "k1"], "outputs": ["so9", "k1"], "stoich": {}},
        {"op": "update_surrogate", "name": "sur", "outputs": ["sa", "sb"], "stoich": {"sb": {"x": 1.0}}}, {"op": "update_surrogate", "name": "sur", "outputs": ["sa", "x"], "stoich": {}},
        {"op": "update_surrogate", "name": "sur", "outputs": ["so2", "so1"], "stoich": {"so1": {"y": 1.0}}},
        {"op": "update_data", "name": "dat", "values": [3.0, 3.0, 3.0]}, {"op": "update_data", "name": "ghost", "values": [3.0, 3.0, 3.0]}, {"op": "update_data", "name": "k1", "values": [3.0]},
        {"op": "remove_parameter", "name": "k3"}, {"op": "remove_parameter", "name": "x"}, {"op": "remove_parameter", "name": "ghost"}, {"op": "remove_parameter", "name": "so1"},
        {"op": "remove_variable", "name": "y"}, {"op": "remove_variable", "name": "k1"}, {"op": "remove_variable", "name": "v1"},
        {"op": "remove_derived", "name": "dv"}, {"op": "remove_derived", "name": "k1"}, {"op": "remove_derived", "name": "ro"},
        {"op": "remove_reaction", "name": "v3"}, {"op": "remove_reaction", "name": "x"}, {"op": "remove_reaction", "name": "dp"},
        {"op": "remove_readout", "name": "ro"}, {"op": "remove_readout", "name": "k1"},
        {"op": "remove_surrogate", "name": "sur"}, {"op": "remove_surrogate", "name": "so1"}, {"op": "remove_surrogate", "name": "x"},
        {"op": "remove_data", "name": "dat"}, {"op": "remove_data", "name": "k2"},
        {"op": "scale_parameter", "name": "k1", "factor": 2.0}, {"op": "scale_parameter", "name": "kq", "factor": 2.0}, {"op": "scale_parameter", "name": "x", "factor": 2.0},
        {"op": "make_parameter_dynamic", "name": "k3"}, {"op": "make_parameter_dynamic", "name": "k3", "initial_value": 0.3, "stoichiometries": {"v1": 1.0}},
        {"op": "make_parameter_dynamic", "name": "k3", "stoichiometries": {"so1": -1.0}}, {"op": "make_parameter_dynamic", "name": "k3", "stoichiometries": {"ghost_rxn": 1.0}},
        {"op": "make_parameter_dynamic", "name": "k3", "stoichiometries": {"v1": 1.0, "ghost_rxn": 1.0}}, {"op": "make_parameter_dynamic", "name": "x"},
        {"op": "make_parameter_dynamic", "name": "kq"},
        # removal that keeps the coefficients (of reactions and of surrogate fluxes alike), so that the variable can come back
        {"op": "remove_variable", "name": "y", "keep_stoichiometries": True}, {"op": "remove_variable", "name": "x", "keep_stoichiometries": True},
        {"op": "add_variable", "name": "y", "value": 0.8}, {"op": "add_variable", "name": "x", "value": 1.3},
        # values that are exactly zero are values
        {"op": "make_variable_static", "name": "y", "value": 0.0}, {"op": "make_variable_static", "name": "x", "value": 0},
        {"op": "make_parameter_dynamic", "name": "k3", "initial_value": 0.0}, {"op": "update_parameter", "name": "k1", "value": 0.0}, {"op": "update_parameter", "name": "k2", "value": 0},
        {"op": "update_variable", "name": "x", "value": 0.0}, {"op": "scale_parameter", "name": "k1", "factor": 0.0}, {"op": "add_parameter", "name": "pz", "value": 0.0},
        {"op": "add_variable", "name": "vz0", "value": 0.0}, {"op": "update_parameters", "items": [{"name": "k1", "value": 0.0}, {"name": "k2", "value": 0.7}]},
        # targets that share the surrogate's place in the name space without being one of its fluxes: the surrogate itself,
        # an output that drives no variable; alone and after a valid target (a refusal must leave nothing half-done)
        {"op": "make_parameter_dynamic", "name": "k3", "stoichiometries": {"sur": 1.0}}, {"op": "make_parameter_dynamic", "name": "k3", "stoichiometries": {"so2": -1.0}},
        {"op": "make_parameter_dynamic", "name": "k3", "stoichiometries": {"v1": 1.0, "sur": 1.0}}, {"op": "make_parameter_dynamic", "name": "k3", "stoichiometries": {"so1": 0.5, "so2": -1.0}},
        {"op": "make_parameter_dynamic", "name": "k3", "stoichiometries": {"v1": 1.0, "x": 1.0}}, {"op": "make_parameter_dynamic", "name": "k3", "stoichiometries": {"v1": 1.0, "dv": 1.0}},
        {"op": "make_variable_static", "name": "y"}, {"op": "make_variable_static", "name": "y", "value": 0.2}, {"op": "make_variable_static", "name": "z"}, {"op": "make_variable_static", "name": "k1"},
        {"op": "add_parameters", "items": [{"name": "na", "value": 1.0}, {"name": "nb", "value": 2.0}]}, {"op": "add_parameters", "items": [{"name": "x", "value": 1.0}, {"name": "nb", "value": 2.0}]},
        {"op": "update_parameters", "items": [{"name": "k1", "value": 0.6}, {"name": "k2", "value": 0.7}]}, {"op": "update_parameters", "items": [{"name": "ghost", "value": 0.6}, {"name": "k2", "value": 0.7}]},
        {"op": "remove_parameters", "items": [{"name": "k3"}, {"name": "kq"}]}, {"op": "scale_parameters", "items": [{"name": "k1", "factor": 2.0}, {"name": "k2", "factor": 2.0}]},
        {"op": "add_variables", "items": [{"name": "na", "value": 1.0}, {"name": "nb", "value": 2.0}]}, {"op": "update_variables", "items": [{"name": "x", "value": 0.6}, {"name": "y", "value": 0.7}]},
        {"op": "remove_variables", "items": [{"name": "w"}, {"name": "z"}]},
    ]
    return ops


def gen_cases(tier: str, seed: int) -> list[dict]:
    scale = float(os.environ.get("VERIF_SCALE", "1"))
    cases: list[dict] = []
    nops = len(triple_ops({}))
    pre = [None, *QUERIES]
    for qi in range(len(pre)):
        cases.append({"kind": "triples", "pre": pre[qi], "lo": 0, "hi": nops, "seed": f"{seed}:C03:base"})
    n = max(4, int(N[tier] * scale))
    for i in range(n):
        cases.append({"kind": "history", "seed": f"{seed}:C03:{i}"})
    return cases


# --------------------------------------------------------------------------
# the checker
# --------------------------------------------------------------------------


def step(model, mirror: dict, op: dict, *, cache_populated_counter: list[int], check_after: bool = True) -> tuple[dict, list[dict]]:  # noqa: ANN001
    """Apply op to real model and mirror; compare. Returns (new mirror, violations)."""
    viols: list[dict] = []
    exp_reject, mirror_after = apply_spec(mirror, op)
    if exp_reject is None:
        return mirror, [{"_stop": True}]  # type: ignore[list-item]
    plural = op["op"].endswith("s") and "items" in op
    before = observe(model)  # also populates the cache
    if model._cache is not None:  # noqa: SLF001  (evidence annotation only)
        cache_populated_counter[0] += 1
    try:
        apply_real(model, op)
        rejected = None
    except Exception as e:  # noqa: BLE001
        rejected = f"{type(e).__name__}: {e}"[:200]
    if rejected is not None:
        after = observe(model)
        if plural and exp_reject:
            # compare with the accepted prefix instead of 'unchanged'
            d = diff_obs(after, observe(rm.build(mirror_after)))
            if d:
                viols.append(core.viol("plural edit: model differs from the accepted prefix of its single edits", None, op=op, error=rejected, differing={k: v for k, v in list(d.items())[:4]}))
                return mirror_after, viols + [{"_stop": True}]  # type: ignore[list-item]
            return mirror_after, viols
        d = diff_obs(after, before)
        if d:
            viols.append(core.viol("rejected edit changed an observable", _mech_rejected(op), op=op, error=rejected, changed={k: v for k, v in list(d.items())[:4]}))
            # continue from the state the model is really in: rebuild is impossible -> stop history
            return mirror, viols + [{"_stop": True}]  # type: ignore[list-item]
        if not exp_reject:
            if _fresh_refuses_alike(mirror, op, rejected):
                return mirror, viols  # the content as it stands cannot be evaluated; a fresh model answers the same way
            viols.append(core.viol("legal edit refused", None, op=op, error=rejected))
            return mirror, viols + [{"_stop": True}]  # type: ignore[list-item]
        return mirror, viols
    if exp_reject:
        viols.append(core.viol("edit with duplicate/unknown name was accepted", _mech_accepted(op), op=op))
        return mirror, viols + [{"_stop": True}]  # type: ignore[list-item]
    if check_after:
        try:
            fresh = rm.build(mirror_after)
        except Exception:  # noqa: BLE001
            return mirror_after, viols + [core.viol("harness: fresh build of mirror failed", "HARNESS", op=op, tb=traceback.format_exc()[-600:]), {"_stop": True}]  # type: ignore[list-item]
        a, b = observe(model), observe(fresh)
        d = diff_obs(a, b)
        if d:
            viols.append(core.viol("edited model differs from a freshly built model with the same content", _mech_differs(op, d), op=op, differing={k: v for k, v in list(d.items())[:4]}))
            return mirror_after, viols + [{"_stop": True}]  # type: ignore[list-item]
        # second opinion on values from the reference evaluator (guards a common-mode error of 'fresh')
        if not isinstance(a["get_right_hand_side"], tuple):
            try:
                exp = rm.Ref(mirror_after).rhs(None, 0.0)
                if not same(a["get_right_hand_side"], exp):
                    viols.append(core.viol("edited and fresh model agree but differ from the reference evaluator", None, op=op, got=a["get_right_hand_side"], expected=exp))
            except (rm.RefMissing, rm.RefCycle, KeyError, TypeError, ValueError, AssertionError):
                pass  # malformed content (both real models raise alike) or non-numeric values: no second opinion
    return mirror_after, viols


def _mech_rejected(op: dict) -> str | None:
    return None


def _mech_accepted(op: dict) -> str | None:
    return None


def _mech_differs(op: dict, d: dict) -> str | None:
    return None


def run_case(case: dict) -> dict:
    rng = core.rng_for(case["seed"])
    viols: list[dict] = []
    counters: dict[str, int] = {}
    cpc = [0]
    sigs: list[str] = []
    sample = None
    if case["kind"] == "triples":
        base = base_spec(core.rng_for(case["seed"]))
        ops = triple_ops(base)
        for i in range(case["lo"], case["hi"]):
            op = ops[i]
            model = rm.build(base)
            if case["pre"] is not None:
                run_query(model, case["pre"], STATE_VALS)
            _, v = _step_nocache_probe(model, base, op, case["pre"], cpc)
            v = [x for x in v if "_stop" not in x]
            for x in v:
                x["detail"]["pre_query"] = case["pre"]
            viols.extend(v)
            counters[f"op:{op['op']}"] = counters.get(f"op:{op['op']}", 0) + 1
            counters[f"pre:{case['pre']}"] = counters.get(f"pre:{case['pre']}", 0) + 1
            sigs.append(f"t:{case['pre']}:{i}")
        counters["triples"] = case["hi"] - case["lo"]
        if case["pre"] == "get_args":
            sample = {"triple": {"pre_query": case["pre"], "mutator": ops[3], "post": "full observable set vs fresh model"}}
    else:
        spec = base_spec(rng) if rng.random() < 0.5 else _small_spec(rng)
        mirror = spec
        model = rm.build(spec)
        removed: list[str] = []
        history: list[dict] = []
        cnt = [0]
        n = rng.randint(2, 14)
        pending: list[dict] = []
        for _ in range(n):
            if not pending and rng.random() < 0.3:
                q = rng.choice(QUERIES)
                run_query(model, q, STATE_VALS)
                history.append({"query": q})
                continue
            op = pending.pop() if pending else gen_op(rng, mirror, removed, cnt)
            if op.get("objects") == "shared" and rng.random() < 0.7:
                # one of the names that were given the same object is edited next
                nm0 = op["items"][-1]["name"]
                if "parameter" in op["op"]:
                    pending.append(rng.choice([{"op": "scale_parameter", "name": nm0, "factor": 2.0}, {"op": "update_parameter", "name": nm0, "value": 3.25}]))
                else:
                    pending.append({"op": "update_variable", "name": nm0, "value": 3.25})
            history.append(op)
            before_names = namespace(mirror)
            mirror, v = step(model, mirror, op, cache_populated_counter=cpc, check_after=rng.random() < 0.8)
            removed.extend(sorted(before_names - namespace(mirror)))
            counters[f"op:{op['op']}"] = counters.get(f"op:{op['op']}", 0) + 1
            stop = any("_stop" in x for x in v)
            v = [x for x in v if "_stop" not in x]
            for x in v:
                x["detail"]["history"] = history[-6:]
                x["detail"]["start"] = "base" if spec is not None and len(spec["components"]) > 10 else "small"
            viols.extend(v)
            if stop:
                break
        counters["history_steps"] = len(history)
        sigs.append(core.sha(history))
        if case.get("idx", 0) % 97 == 0:
            sample = {"history": history}
    counters["mutator_ran_with_cache_populated"] = cpc[0]
    counters["table_of_objects_reused_for_a_second_model_that_was_then_edited"] = SIBLING_EDITS[0]
    for form, cnt_ in CONTAINERS.items():
        counters[f"plural edit given as {form}"] = cnt_
    CONTAINERS.clear()
    SIBLING_EDITS[0] = 0
    counters["evaluating_edit_refused_on_unresolvable_content(fresh model alike)"] = FRESH_REFUSALS[0]
    FRESH_REFUSALS[0] = 0
    # dedupe
    seen = set()
    out = []
    for v in viols:
        k = (v["what"], v["mechanism"], v["detail"].get("op", {}).get("op"))
        if k not in seen:
            seen.add(k)
            out.append(v)
    return core.result(sig=case["seed"], nontrivial=cpc[0] > 0, sigs=sigs if cpc[0] > 0 else [], violations=out[:8], counters=counters, sample=sample)


def _step_nocache_probe(model, mirror, op, pre, cpc):  # noqa: ANN001, ANN202
    """Triple layer: the pre-query decides whether the cache is populated; `step` observes first (which would
    populate it), so for pre=None use a variant that does not observe before."""
    if pre is not None:
        return step(model, mirror, op, cache_populated_counter=cpc)
    viols: list[dict] = []
    exp_reject, mirror_after = apply_spec(mirror, op)
    if exp_reject is None:
        return mirror, []
    try:
        apply_real(model, op)
        rejected = None
    except Exception as e:  # noqa: BLE001
        rejected = f"{type(e).__name__}: {e}"[:200]
    target = mirror_after if (rejected is None or (op["op"].endswith("s") and "items" in op)) else mirror
    if rejected is None and exp_reject:
        return mirror, [core.viol("edit with duplicate/unknown name was accepted", _mech_accepted(op), op=op)]
    if rejected is not None and not exp_reject:
        if _fresh_refuses_alike(mirror, op, rejected):
            return mirror, []
        return mirror, [core.viol("legal edit refused", None, op=op, error=rejected)]
    fresh = rm.build(target)
    d = diff_obs(observe(model), observe(fresh))
    if d:
        what = "rejected edit changed an observable" if rejected is not None else "edited model differs from a freshly built model with the same content"
        viols.append(core.viol(what, None, op=op, error=rejected, differing={k: v for k, v in list(d.items())[:4]}))
    return target, viols


FRESH_REFUSALS = [0]


def _fresh_refuses_alike(mirror: dict, op: dict, rejected: str) -> bool:
    """An edit that has to evaluate the model (scaling an assignment-defined parameter, ...) cannot succeed while the
    content is unresolvable (a name is missing, a cycle). That is not a rejected duplicate/unknown name: the statement's
    oracle decides - a freshly built model with the same content must refuse the same edit with the same error type."""
    kind = rejected.split(":", 1)[0]
    if kind not in ("MissingDependenciesError", "CircularDependencyError"):
        return False
    try:
        fresh = rm.build(mirror)
        apply_real(fresh, op)
    except Exception as e:  # noqa: BLE001
        if type(e).__name__ == kind:
            FRESH_REFUSALS[0] += 1
            return True
    return False


def _small_spec(rng) -> dict:  # noqa: ANN001
    return rm.gen_spec(rng, rich=True, max_comp=6)


def finalize(results: list[dict], tier: str, counters) -> dict:  # noqa: ANN001
    ops = {k[3:]: v for k, v in counters.items() if k.startswith("op:")}
    pre = {k[4:]: v for k, v in counters.items() if k.startswith("pre:")}
    inc = []
    if not counters.get("mutator_ran_with_cache_populated"):
        inc.append("no mutator ran while the cache was populated")
    return {
        "inconclusive": inc,
        "mutator_coverage": ops,
        "triple_layer": {"pre_queries": pre, "enumerated": True},
        "evaluations": int(counters.get("history_steps", 0) + counters.get("triples", 0)),
    }
