"""C11 — model -> generated MxlPy source -> model preserves behaviour, or fails.

Differential execution monitor: exec(generate_mxlpy_code(M))['create_model']()
is compared with M (names and kinds, initial values, parameter values, derived
values, fluxes and derivatives at random states) and with the reference
evaluator.
"""

from __future__ import annotations

import os

from mon import core
from mon import refmodel as rm
from mon.fnlib import basic as fl
from mon.fnlib import trans as tr
from mon.fnlib import trans_b as tb
from mon.gen_transmodel import gen

LEVEL = "exploration"
RULE = (
    "translatable surrogate-free models (as C07) plus hostile function assignments: one Python function serving "
    "several components with different, overlapping and permuted argument lists, the same model name twice in one "
    "argument list, different functions with the same __name__ from two modules, functions whose names collide with the "
    "generator's 'init_' / '<reaction>_stoich_' prefixes, expressions that print with math.*; initial assignments on "
    "variables and parameters; computed coefficients; functions that read module-level constants and class attributes, with "
    "one generation made before those values change and the checked generation after. non-trivial = model has a hostile assignment; distinct = model hash"
)
ASSUMPTIONS = ["oracle: the original model and mon/refmodel at 4 random states", "generated numbers are printed with 15 significant digits: tolerance 1e-9"]
N = {"quick": 300, "thorough": 70000}
MIN_NONTRIVIAL = {"quick": 100, "thorough": 2000}


def gen_cases(tier: str, seed: int) -> list[dict]:
    n = max(4, int(N[tier] * float(os.environ.get("VERIF_SCALE", "1"))))
    return [{"seed": f"{seed}:C11:{i}", "untranslatable": i % 8 == 7} for i in range(n)]


def hostile(spec: dict, rng) -> list[str]:  # noqa: ANN001
    L = fl.ref
    comps = spec["components"]
    variables = [c["name"] for c in comps if c["kind"] == "variable"]
    params = [c["name"] for c in comps if c["kind"] == "parameter" and "ia" not in c]
    feats = []
    x = lambda: rng.choice(variables)  # noqa: E731
    k = lambda: rng.choice(params)  # noqa: E731
    for kind in rng.sample(["shared", "permuted", "same_name", "dup_args", "sqrt", "prefix_collision", "ia_variable", "same_name_coef", "mirror_same_name", "same_name_other_arity", "module_state", "same_name_assignments", "local_module_alias"], rng.randint(1, 3)):
        if kind == "shared":
            comps.append({"kind": "derived", "name": "hs1", "fn": L(tr.t_div), "args": [x(), k()]})
            comps.append({"kind": "derived", "name": "hs2", "fn": L(tr.t_div), "args": [k(), x()]})
            comps.append({"kind": "reaction", "name": "hsv", "fn": L(tr.t_div), "args": ["hs1", "hs2"], "stoich": {x(): 1.0}})
        elif kind == "permuted" and len(variables) >= 2:
            a, b = rng.sample(variables, 2)
            k1, k2 = k(), k()
            comps.append({"kind": "reaction", "name": "hp1", "fn": L(tr.t_rev), "args": [a, b, k1, k2], "stoich": {a: -1.0, b: 1.0}})
            comps.append({"kind": "reaction", "name": "hp2", "fn": L(tr.t_rev), "args": [b, a, k2, k1], "stoich": {b: -1.0, a: 1.0}})
            comps.append({"kind": "derived", "name": "hpd", "fn": L(tr.t_rev), "args": [k1, a, b, k2]})
        elif kind == "same_name":
            s = x()
            comps.append({"kind": "reaction", "name": "hn1", "fn": L(tr.t_ma1), "args": [k(), s], "stoich": {s: -1.0}})
            comps.append({"kind": "reaction", "name": "hn2", "fn": L(tb.t_ma1), "args": [k(), s], "stoich": {s: 1.0}})
            comps.append({"kind": "derived", "name": "hnd", "fn": L(tb.t_add), "args": [s, k()]})
            comps.append({"kind": "derived", "name": "hnd2", "fn": L(tr.t_add), "args": [s, k()]})
        elif kind == "mirror_same_name" and len(variables) >= 2:
            a, b = rng.sample(variables, 2)
            comps.append({"kind": "derived", "name": "hm1", "fn": L(tr.t_net), "args": [a, b]})
            comps.append({"kind": "derived", "name": "hm2", "fn": L(tb.t_net), "args": [b, a]})
            comps.append({"kind": "reaction", "name": "hmv", "fn": L(tr.t_net), "args": [a, b], "stoich": {a: -1.0}})
            comps.append({"kind": "reaction", "name": "hmw", "fn": L(tb.t_net), "args": [b, a], "stoich": {b: 1.0}})
        elif kind == "same_name_other_arity":
            a = x()
            comps.append({"kind": "derived", "name": "hu1", "fn": L(tr.t_un), "args": [a, k()]})
            comps.append({"kind": "derived", "name": "hu2", "fn": L(tb.t_un), "args": [a]})
        elif kind == "module_state":
            a = x()
            comps.append({"kind": "reaction", "name": "hms", "fn": L(tb.t_modconst), "args": [a, k()], "stoich": {a: -1.0}})
            comps.append({"kind": "derived", "name": "hma", "fn": L(tb.t_modattr), "args": [x(), k()]})
            comps.append({"kind": "derived", "name": "hcn", "fn": L(tb.t_constnames), "args": [x(), k()]})  # attributes called tau, e, pi
        elif kind == "dup_args":
            s = x()
            comps.append({"kind": "derived", "name": "hd1", "fn": L(tr.t_mul), "args": [s, s]})
            comps.append({"kind": "reaction", "name": "hdv", "fn": L(tr.t_ma2), "args": [k(), s, s], "stoich": {s: -2.0}})
        elif kind == "sqrt":
            comps.append({"kind": "derived", "name": "hq", "fn": L(tb.t_sqrt), "args": [k(), x()]})
        elif kind == "prefix_collision":
            comps.append({"kind": "parameter", "name": "hia", "ia": {"fn": L(tr.t_add), "args": [k(), x()]}})
            comps.append({"kind": "derived", "name": "hpc", "fn": L(tb.init_t_add), "args": [k(), x()]})
            s = x()
            comps.append({"kind": "reaction", "name": "v0b", "fn": L(tr.t_ma1), "args": [k(), s], "stoich": {s: {"fn": L(tb.v0_stoich_t_half), "args": [k()]}}})
        elif kind == "ia_variable":
            comps.append({"kind": "variable", "name": "hiv", "ia": {"fn": L(tr.t_mul), "args": [k(), x()]}})
            comps.append({"kind": "reaction", "name": "hivr", "fn": L(tr.t_ma1), "args": [k(), "hiv"], "stoich": {"hiv": -1.0}})
        elif kind == "same_name_assignments":
            # initial assignments of a variable and of two parameters through different functions that share a name and an arity
            comps.append({"kind": "variable", "name": "hav", "ia": {"fn": L(tr.t_add), "args": [k(), k()]}})
            comps.append({"kind": "parameter", "name": "hap", "ia": {"fn": L(tb.t_add), "args": [k(), k()]}})
            comps.append({"kind": "parameter", "name": "haq", "ia": {"fn": L(tr.t_add), "args": [k(), k()]}})
            comps.append({"kind": "reaction", "name": "har", "fn": L(tr.t_ma2), "args": ["hap", "hav", "haq"], "stoich": {"hav": -1.0}})
        elif kind == "local_module_alias":
            # a constant read through a module alias the function binds itself, although its module binds the same alias to
            # another module whose constant of that name has another value (and a sibling that reads the module-level one)
            s = x()
            comps.append({"kind": "derived", "name": "hlc", "fn": L(tb.t_localcfg), "args": [s, k()]})
            comps.append({"kind": "reaction", "name": "hlv", "fn": L(tb.t_modulecfg), "args": [s, k()], "stoich": {s: -1.0}})
        elif kind == "same_name_coef":
            s = x()
            comps.append({"kind": "reaction", "name": "hc1", "fn": L(tr.t_ma1), "args": [k(), s], "stoich": {s: {"fn": L(tr.t_half), "args": [k()]}}})
            comps.append({"kind": "reaction", "name": "hc2", "fn": L(tr.t_const), "args": [k()], "stoich": {s: {"fn": L(tb.t_half), "args": [k()]}}})
        else:
            continue
        feats.append(kind)
    return feats


def run_case(case: dict) -> dict:
    from mxlpy.meta import generate_mxlpy_code

    rng = core.rng_for(case["seed"])
    g = gen(rng, untranslatable=case["untranslatable"])
    spec = g["spec"]
    hfeats = hostile(spec, rng) if not case["untranslatable"] else []
    spec = rm.shuffled(spec, rng)
    model = rm.build(spec)
    viols: list[dict] = []
    counters: dict[str, int] = {}
    ctx = {"spec": spec, "hostile": hfeats}
    if "module_state" in hfeats:
        # one generation was already made in this process when the module-level values the functions read change:
        # the source generated afterwards must describe the model as it now behaves
        try:
            generate_mxlpy_code(model)
        except Exception:  # noqa: BLE001, S110
            pass
        tb.KSAT, tb.Settings.gain = round(rng.uniform(0.5, 3.0), 3), round(rng.uniform(0.5, 3.0), 3)
        counters["generated_again_after_module_state_changed"] = 1
    try:
        return _run(case, rng, model, spec, hfeats, viols, counters, ctx)
    finally:
        tb.KSAT, tb.Settings.gain = 1.75, 2.0


def _run(case: dict, rng, model, spec: dict, hfeats: list, viols: list, counters: dict, ctx: dict) -> dict:  # noqa: ANN001
    from mxlpy.meta import generate_mxlpy_code

    try:
        code = generate_mxlpy_code(model)
    except Exception as e:  # noqa: BLE001
        if case["untranslatable"]:
            return core.result(sig=core.sha(spec), nontrivial=True, counters={"untranslatable_raised": 1})
        counters["generation_raised"] = 1
        # raising is "fails": allowed by the statement only for untranslatable functions; record what raised
        viols.append(core.viol(f"generation raised for a translatable model [{'+'.join(hfeats) or 'plain'}]", None, error=f"{type(e).__name__}: {e}"[:300], **ctx))
        return core.result(sig=core.sha(spec), nontrivial=bool(hfeats), violations=viols, counters=counters)
    if case["untranslatable"]:
        return core.result(sig=core.sha(spec), nontrivial=True,
                           violations=[core.viol("generation did not raise for a function that cannot be translated", None, code=code[:800], **ctx)])
    counters["generated"] = 1
    ns: dict = {}
    try:
        exec(compile(code, "<generated-mxlpy>", "exec"), ns)  # noqa: S102
        rebuilt = ns["create_model"]()
    except Exception as e:  # noqa: BLE001
        viols.append(core.viol(f"generated source does not execute [{'+'.join(hfeats) or 'plain'}]", None, error=f"{type(e).__name__}: {e}"[:300], code=code[:1500], **ctx))
        return core.result(sig=core.sha(spec), nontrivial=bool(hfeats), violations=viols, counters=counters)
    counters["rebuilt"] = 1
    ref = rm.Ref(spec)
    label = "+".join(hfeats) or "plain"
    # names and kinds
    for what, a, b in (("parameters", model.get_parameter_names(), rebuilt.get_parameter_names()), ("variables", model.get_variable_names(), rebuilt.get_variable_names()),
                       ("derived", list(model.get_raw_derived()), list(rebuilt.get_raw_derived())), ("reactions", model.get_reaction_names(), rebuilt.get_reaction_names())):
        if sorted(a) != sorted(b):
            viols.append(core.viol(f"rebuilt model has different {what}", None, original=a, rebuilt=b, **ctx))
    try:
        ic_a, ic_b = model.get_initial_conditions(), rebuilt.get_initial_conditions()
        if set(ic_a) != set(ic_b) or any(not core.close(ic_b[k], ic_a[k], 1e-9) for k in ic_a):
            viols.append(core.viol(f"rebuilt model has different initial values [{label}]", None, original=ic_a, rebuilt=ic_b, code=code[:1200], **ctx))
        pa = model.get_args(include_readouts=False)
        pb = rebuilt.get_args(include_readouts=False)
        for k in ref.names_by_kind["parameter"]:
            if not core.close(pb[k], pa[k], 1e-9):
                viols.append(core.viol(f"rebuilt model has a different parameter value [{label}]", None, name=k, original=float(pa[k]), rebuilt=float(pb[k]), **ctx))
        for _ in range(4):
            st = {v: round(rng.uniform(0.2, 3.0), 3) for v in ref.variables}
            if _ >= 2:
                st = {v: rng.choice([0.5, 1.0, 1.5, 2.0]) for v in ref.variables}  # lattice: equalities between quantities hold here
            t = round(rng.uniform(0.0, 3.0), 2)
            a = model.get_args(st, t)
            b = rebuilt.get_args(st, t)
            exp = ref.at(st, t, readouts=False)
            bad = [k for k in a.index if k in b.index and not core.close(b[k], a[k], 1e-9)] + [k for k in a.index if k not in b.index]
            ra = model.get_right_hand_side(st, t)
            rb = rebuilt.get_right_hand_side(st, t)
            bad += [f"d{k}/dt" for k in ra.index if not core.close(rb.get(k, float("nan")), ra[k], 1e-9)]
            if any(not core.close(a[k], exp[k], 1e-9) for k in a.index if k in exp and k != "time"):
                viols.append(core.viol("original model disagrees with the reference evaluator (harness or C01 problem)", "HARNESS", **ctx))
            counters["states_compared"] = counters.get("states_compared", 0) + 1
            if bad:
                viols.append(core.viol(f"rebuilt model computes different values [{label}]", None, names=bad[:6], original={k: float(a[k]) for k in bad[:6] if k in a.index},
                                       rebuilt={k: float(b[k]) for k in bad[:6] if k in b.index}, state=st, time=t, code=code[:2000], **ctx))
                break
    except Exception as e:  # noqa: BLE001
        import traceback

        viols.append(core.viol(f"rebuilt model cannot be evaluated [{label}]", None, error=traceback.format_exc()[-500:], code=code[:1500], **ctx))
    for f in hfeats:
        counters[f"hostile:{f}"] = 1
    seen = set()
    out = []
    for v in viols:
        if v["what"] not in seen:
            seen.add(v["what"])
            out.append(v)
    return core.result(sig=core.sha(spec), nontrivial=bool(hfeats), violations=out[:4], counters=counters,
                       sample={"hostile": hfeats, "code_head": code[:600]} if case.get("idx", 0) < 2 else None)


def finalize(results: list[dict], tier: str, counters) -> dict:  # noqa: ANN001
    inc = []
    for k in ("rebuilt", "states_compared", "untranslatable_raised"):
        if not counters.get(k):
            inc.append(f"monitor '{k}' never evaluated")
    return {"inconclusive": inc, "programs": int(counters.get("generated", 0))}
