"""C02 — dependency resolution is order-independent; bad graphs are rejected.

Oracle: own graph classification (missing names per component, cycles by DFS)
+ reference values.  Monitor: sys.monitoring LINE counter on the retry loop of
the real ``_sort_dependencies`` (logical-step termination monitor).
"""

from __future__ import annotations

import ast
import inspect
import itertools
import os
import re
import sys

from mon import core
from mon import refmodel as rm
from mon.fnlib import basic as fl

LEVEL = "exploration"
RULE = (
    "layer A (exhaustive): every directed graph on n<=N derived nodes, each requiring any subset of {parameter p, "
    "every node incl. itself, one absent name}, built in every declaration order; layer B (sampled): 4..12 mixed "
    "components (derived, reactions, initial assignments on variables/parameters, multi-output surrogates) with "
    "injected self-loops, 2..n-cycles, missing names, reverse-declared chains, in several declaration orders. "
    "non-trivial = graph has a cycle, a missing name, or >=2 dependent components; distinct = graph x order hash"
)
ASSUMPTIONS = [
    "classification oracle: mon/refmodel.Ref.classify_graph (DFS), values: mon/refmodel evaluator",
    "a graph with both a missing name and a cycle may raise either error",
]
MIN_NONTRIVIAL = {"quick": 500, "thorough": 5000}
EXH_N = {"quick": 2, "thorough": 3}
N_SAMPLED = {"quick": 2500, "thorough": 500000}
CHUNK = 512

TOOL = 4
_STATE = {"count": 0, "limit": 0, "line": None, "armed": False, "max_ratio": 0.0, "calls": 0}


class NonTermination(Exception):
    pass


def _install_monitor() -> None:
    """Count iterations of the retry loop in the real _sort_dependencies."""
    import mxlpy.model as mm

    fn = mm._sort_dependencies  # noqa: SLF001
    code = fn.__code__
    src, first = inspect.getsourcelines(fn)
    line = None
    for off, text in enumerate(src):
        if "get_nowait()" in text and "dependency" in text:
            line = first + off
            break
    _STATE["line"] = line
    if line is None:
        return
    mon = sys.monitoring
    try:
        mon.use_tool_id(TOOL, "verif-c02")
    except ValueError:
        pass

    def on_line(c, ln):  # noqa: ANN001, ANN202
        if c is not code:
            return mon.DISABLE
        if ln != line:
            return mon.DISABLE
        _STATE["count"] += 1
        if _STATE["limit"] and _STATE["count"] > _STATE["limit"]:
            raise NonTermination(f"{_STATE['count']} loop iterations")
        return None

    mon.register_callback(TOOL, mon.events.LINE, on_line)
    mon.set_local_events(TOOL, code, mon.events.LINE)
    _STATE["armed"] = True


def worker_init() -> None:
    _install_monitor()


# --------------------------------------------------------------------------
# case generation
# --------------------------------------------------------------------------


def gen_cases(tier: str, seed: int) -> list[dict]:
    scale = float(os.environ.get("VERIF_SCALE", "1"))
    cases: list[dict] = []
    for n in range(1, EXH_N[tier] + 1):
        total = (2 ** (n + 2)) ** n
        for lo in range(0, total, CHUNK):
            cases.append({"kind": "exh", "n": n, "lo": lo, "hi": min(total, lo + CHUNK)})
    ns = max(10, int(N_SAMPLED[tier] * scale))
    per = 50
    for i in range(0, ns, per):
        cases.append({"kind": "sampled", "seed": f"{seed}:C02:{i}", "count": per})
    for i in range(max(8, ns // 300)):
        cases.append({"kind": "sampled", "seed": f"{seed}:C02:deep:{i}", "count": 2, "big": True})
    return cases


def exh_spec(n: int, code: int) -> dict:
    """Graph number `code`: node i's requirement bits = (code >> i*(n+2)) & mask."""
    bits = n + 2
    comps = [{"kind": "parameter", "name": "p", "value": 0.8}, {"kind": "variable", "name": "x", "value": 1.3}]
    names = ["p"] + [f"d{i}" for i in range(n)] + ["absent"]
    for i in range(n):
        m = (code >> (i * bits)) & ((1 << bits) - 1)
        args = [names[j] for j in range(bits) if (m >> j) & 1]
        comps.append({"kind": "derived", "name": f"d{i}", "fn": fl.ref(fl.W[len(args)]), "args": args})
    # one reaction so that get_right_hand_side has something to do
    comps.append({"kind": "reaction", "name": "v", "fn": fl.ref(fl.W[1]), "args": ["x"], "stoich": {"x": -1}})
    return {"components": comps}


def _big_spec(rng) -> tuple[dict, str]:  # noqa: ANN001
    """Deep graphs: a chain of 40..160 derived quantities / reactions (values stay O(1): w1 is a contraction), optionally
    closed into one long cycle or naming something absent at its far end."""
    n = rng.choice([40, 64, 80, 100, 160])
    comps: list[dict] = [
        {"kind": "parameter", "name": "p0", "value": rm.rnd_val(rng)},
        {"kind": "variable", "name": "x0", "value": rm.rnd_val(rng)},
    ]
    defect = rng.choice(["none", "none", "cycle", "missing"])
    first_arg = {"none": "x0", "cycle": f"n{n - 1}", "missing": "ghost"}[defect]
    for i in range(n):
        prev = first_arg if i == 0 else f"n{i - 1}"
        args = [prev] if rng.random() < 0.7 else [prev, "p0"]
        if rng.random() < 0.8:
            comps.append({"kind": "derived", "name": f"n{i}", "fn": fl.ref(fl.W[len(args)]), "args": args})
        else:
            comps.append({"kind": "reaction", "name": f"n{i}", "fn": fl.ref(fl.W[len(args)]), "args": args, "stoich": {"x0": rng.choice([-1, 1])}})
    return {"components": comps}, f"deep{n}/{defect}"


def _mixed_spec(rng) -> tuple[dict, str]:  # noqa: ANN001
    """Mixed-kind acyclic graph, then optional injected defect. Returns (spec, shape tag)."""
    n = rng.randint(3, 11)
    comps: list[dict] = [
        {"kind": "parameter", "name": "p0", "value": rm.rnd_val(rng)},
        {"kind": "parameter", "name": "p1", "value": rm.rnd_val(rng)},
        {"kind": "variable", "name": "x0", "value": rm.rnd_val(rng)},
        {"kind": "variable", "name": "x1", "value": rm.rnd_val(rng)},
    ]
    pool = ["p0", "p1", "x0", "x1"]
    shape = rng.choice(["chain", "random", "fan", "diamond"])
    nodes: list[dict] = []
    for i in range(n):
        kind = rng.choices(["derived", "reaction", "iap", "iav", "surrogate"], [5, 3, 2, 1, 2])[0]
        if shape == "chain" and nodes:
            last = nodes[-1]
            prev = last["outputs"][0] if last["kind"] == "surrogate" else last["name"]
            args = [prev] + [rng.choice(pool) for _ in range(rng.randint(0, 1))]
        elif shape == "fan":
            args = [rng.choice(pool[:4]) for _ in range(rng.randint(1, 2))]
        elif shape == "diamond" and len(nodes) >= 2:
            a, b = rng.sample(pool[4:], 2) if len(pool) >= 6 else (pool[-1], pool[-2])
            args = [a, b]
        else:
            args = [rng.choice(pool) for _ in range(rng.randint(0, 3))]
        if kind == "derived":
            c = {"kind": "derived", "name": f"d{i}", "fn": fl.ref(fl.W[len(args)]), "args": args}
            pool.append(c["name"])
        elif kind == "reaction":
            c = {"kind": "reaction", "name": f"v{i}", "fn": fl.ref(fl.W[len(args)]), "args": args,
                 "stoich": {rng.choice(["x0", "x1"]): rng.choice([-1, 1, 2])}}
            pool.append(c["name"])
        elif kind == "iap":
            c = {"kind": "parameter", "name": f"q{i}", "ia": {"fn": fl.ref(fl.W[len(args)]), "args": args}}
            pool.append(c["name"])
        elif kind == "iav":
            c = {"kind": "variable", "name": f"y{i}", "ia": {"fn": fl.ref(fl.W[len(args)]), "args": args}}
            pool.append(c["name"])
        else:
            args = args[:3]
            c = {"kind": "surrogate", "name": f"s{i}", "fn": fl.ref(fl.SW[len(args)]), "args": args,
                 "outputs": [f"s{i}a", f"s{i}b"], "stoich": {}}
            pool.extend(c["outputs"])
        nodes.append(c)
        comps.append(c)

    def args_of(c: dict) -> list[str]:
        return c["ia"]["args"] if "ia" in c else c["args"]

    def set_args(c: dict, args: list[str]) -> None:
        tab = fl.SW if c["kind"] == "surrogate" else fl.W
        if len(args) >= len(tab):
            args = args[: len(tab) - 1]
        if "ia" in c:
            c["ia"] = {"fn": fl.ref(tab[len(args)]), "args": args}
        else:
            c["args"] = args
            c["fn"] = fl.ref(tab[len(args)])

    def provided(c: dict) -> str:
        return rng.choice(c["outputs"]) if c["kind"] == "surrogate" else c["name"]

    defect = rng.choices(["none", "self", "cycle", "missing", "missing+cycle", "multi-missing", "many-missing", "long-missing"], [4, 3, 3, 2, 1, 1, 1, 1])[0]
    if defect in ("self",):
        c = rng.choice(nodes)
        set_args(c, args_of(c)[:2] + [provided(c)])
    if defect in ("cycle", "missing+cycle"):
        k = rng.randint(2, min(5, len(nodes)))
        idx = sorted(rng.sample(range(len(nodes)), k))
        ring = [nodes[i] for i in idx]
        for a, b in zip(ring, ring[1:] + ring[:1]):
            # a requires b  (closing edge goes "backwards")
            set_args(a, args_of(a)[:2] + [provided(b)])
    if defect in ("missing", "missing+cycle", "multi-missing"):
        for c in rng.sample(nodes, 1 if defect != "multi-missing" else min(3, len(nodes))):
            extra = [f"nope{j}" for j in range(rng.randint(1, 2))]
            set_args(c, args_of(c)[:1] + extra)
    if defect in ("many-missing", "long-missing"):
        # one component naming 7..10 absent things, or an absent name of 30..60 characters: the error lists exactly those names
        c = rng.choice([n for n in nodes if n["kind"] in ("derived", "reaction")] or nodes)
        if defect == "many-missing":
            extra = [f"absent{j}" for j in range(rng.randint(7, 10))]
        else:
            extra = ["ribulose_1_5_bisphosphate_carboxylase_oxygenase_vmax_" + "x" * rng.randint(0, 8), "nope0"][: rng.randint(1, 2)]
        if c["kind"] in ("derived", "reaction"):
            c["args"] = args_of(c)[:1] + extra
            c["fn"] = fl.ref(fl.wn)
        else:
            set_args(c, args_of(c)[:1] + extra[:2])
    return {"components": comps}, f"{shape}/{defect}"


MISS_RE = re.compile(r"^\t(.+?): (\[.*\])$", re.M)


AWAY_T = 1.75


def _away_state(model) -> dict:  # noqa: ANN001
    return {v: 2.25 + 0.5 * i for i, v in enumerate(sorted(model.get_variable_names()))}


def _observe(model) -> dict:  # noqa: ANN001
    """Call the three observation points; classify outcome of each."""
    from mxlpy.model import CircularDependencyError, MissingDependenciesError

    out = {}
    for name, call in (
        ("get_args", lambda: model.get_args().to_dict()),
        ("get_initial_conditions", lambda: dict(model.get_initial_conditions())),
        ("get_right_hand_side", lambda: model.get_right_hand_side().to_dict()),
        # "each component seeing the finished values of everything it names" - also away from the initial state and t = 0
        ("get_args_at_state", lambda: model.get_args(_away_state(model), AWAY_T).to_dict()),
        ("get_right_hand_side_at_state", lambda: model.get_right_hand_side(_away_state(model), AWAY_T).to_dict()),
    ):
        _STATE["count"] = 0
        try:
            out[name] = ("values", call())
        except MissingDependenciesError as e:
            out[name] = ("missing", str(e))
        except CircularDependencyError as e:
            out[name] = ("circular", str(e)[:200])
        except NonTermination as e:
            out[name] = ("nontermination", str(e))
        except Exception as e:  # noqa: BLE001
            out[name] = ("other", f"{type(e).__name__}: {e}"[:300])
        model._cache = None  # noqa: SLF001  (force re-resolution for the next observation point)
    return out


def check_graph(spec: dict, orders: list[list[int]], tag: str) -> tuple[list[dict], dict]:
    """Build the graph in each order, compare with oracle. Returns (violations, info)."""
    ref_missing, ref_cycle = rm.Ref.classify_graph(_shell(spec))
    n_sort = sum(1 for c in spec["components"] if c["kind"] in ("derived", "reaction", "surrogate") or "ia" in c)
    _STATE["limit"] = 20 * (n_sort * n_sort + n_sort + 10)
    expect_vals = None
    if not ref_missing and not ref_cycle:
        ref = rm.Ref(spec)
        expect_vals = ref
    viols: list[dict] = []
    info = {"missing": bool(ref_missing), "cycle": ref_cycle, "orders": len(orders)}
    builds: list = list(orders)
    swappable = [i for i, c in enumerate(spec["components"]) if c["kind"] in ("surrogate", "derived", "reaction") and c.get("args")]
    if swappable:
        # the same graph reached by a swap: one component first names only a plain quantity, the model is evaluated, and the
        # component is then exchanged for what the graph says (a surrogate as a new object that carries its own names)
        builds.append(("swap", swappable[_STATE["calls"] % len(swappable)]))
    for order in builds:
        if isinstance(order, tuple):
            model = _build_by_swap(spec, order[1])
            if model is None:
                continue
            order = f"component {spec['components'][order[1]]['name']} swapped in after an evaluation"  # noqa: PLW2901
            HISTORY["graph reached by swapping a component in"] = HISTORY.get("graph reached by swapping a component in", 0) + 1
        else:
            model = rm.build(spec, order)
        obs = _observe(model)
        _STATE["calls"] += 1
        if n_sort:
            _STATE["max_ratio"] = max(_STATE["max_ratio"], _STATE["count"] / float(n_sort * n_sort))
        for point, (kind, payload) in obs.items():
            if kind == "nontermination":
                viols.append(core.viol("resolution did not terminate within 20x its own bound", None, point=point, spec=spec, order=order, tag=tag))
            elif expect_vals is not None:
                if kind != "values":
                    viols.append(core.viol(f"acyclic complete graph rejected ({kind})", None, point=point, payload=payload, spec=spec, order=order, tag=tag))
                    continue
                if point == "get_args":
                    exp = expect_vals.at(None, 0.0, readouts=False)
                    bad = {k: (v, exp.get(k)) for k, v in payload.items() if k in exp and not core.close(v, exp[k])}
                    bad |= {k: ("absent from the argument table", exp[k]) for k in exp if k not in payload}
                elif point == "get_initial_conditions":
                    exp = expect_vals.initial_conditions()
                    bad = {k: (v, exp.get(k)) for k, v in payload.items() if not core.close(v, exp.get(k, float("nan")))}
                elif point == "get_args_at_state":
                    st_ = {v: 2.25 + 0.5 * i for i, v in enumerate(sorted(expect_vals.variables))}
                    exp = expect_vals.at(st_, AWAY_T, readouts=False)
                    bad = {k: (v, exp.get(k)) for k, v in payload.items() if k in exp and k != "time" and not core.close(v, exp[k])}
                    bad |= {k: ("absent from the argument table", exp[k]) for k in exp if k not in payload}
                elif point == "get_right_hand_side_at_state":
                    st_ = {v: 2.25 + 0.5 * i for i, v in enumerate(sorted(expect_vals.variables))}
                    exp = expect_vals.rhs(st_, AWAY_T)
                    bad = {k: (v, exp.get(k)) for k, v in payload.items() if not core.close(v, exp.get(k, float("nan")))}
                else:
                    exp = expect_vals.rhs(None, 0.0)
                    bad = {k: (v, exp.get(k)) for k, v in payload.items() if not core.close(v, exp.get(k, float("nan")))}
                if bad:
                    viols.append(core.viol("values differ from reference in this declaration order", None, point=point, bad=bad, spec=spec, order=order, tag=tag))
            elif ref_missing:
                ok = kind == "missing" and _missing_msg_ok(payload, ref_missing)
                if ref_cycle and kind == "circular":
                    ok = True
                if not ok:
                    what = "numbers returned for graph with missing names" if kind == "values" else f"missing names not reported exactly ({kind})"
                    viols.append(core.viol(what, None, point=point, got=payload, expected=ref_missing, spec=spec, order=order, tag=tag))
            elif kind != "circular":
                what = "numbers returned for cyclic graph" if kind == "values" else f"cycle not rejected with circular-dependency error ({kind})"
                mech = "C02-selfloop-shortcut" if _only_self_loops(spec) and kind == "other" and "KeyError" in str(payload) else None
                viols.append(core.viol(what, mech, point=point, got=payload, spec=spec, order=order, tag=tag))
        if len(viols) > 6:
            break
    plain = [c for c in spec["components"] if c["kind"] in ("variable", "parameter") and "value" in c]
    if expect_vals is not None and plain and not viols:
        # a valid graph, evaluated, then one declared initial value changes: whatever names that variable (assignment-defined
        # parameters and initial values included, through any chain) sees the new finished value
        import copy

        tgt_c = plain[_STATE["calls"] % len(plain)]
        tgt = tgt_c["name"]
        sp2 = copy.deepcopy(spec)
        for c in sp2["components"]:
            if c["kind"] == tgt_c["kind"] and c["name"] == tgt:
                c["value"] = 3.25
        try:
            ref2 = rm.Ref(sp2)
            exp_a, exp_i = ref2.at(None, 0.0, readouts=False), ref2.initial_conditions()
        except Exception:  # noqa: BLE001
            ref2 = None
        if ref2 is not None:
            model = rm.build(spec)
            model.get_args()  # (resolved once; _observe drops the resolution after every point, a session does not)
            if _STATE["calls"] % 3 == 0:
                # the parameter values are read and put back as they are (what a routine does that restores a model)
                model.update_parameters(model.get_parameter_values())
                HISTORY["parameter values read and put back before an upstream edit"] = HISTORY.get("parameter values read and put back before an upstream edit", 0) + 1
            if tgt_c["kind"] == "parameter":
                model.update_parameter(tgt, 3.25) if _STATE["calls"] % 2 else model.update_parameters({tgt: 3.25})
            elif _STATE["calls"] % 2:
                model.update_variable(tgt, 3.25)
            else:
                model.update_variables({tgt: 3.25})
            HISTORY["initial value changed after an evaluation"] = HISTORY.get("initial value changed after an evaluation", 0) + 1
            obs = {}
            for point, call in (("get_args", lambda: model.get_args().to_dict()), ("get_initial_conditions", lambda: dict(model.get_initial_conditions()))):
                try:
                    obs[point] = ("values", call())
                except Exception as e:  # noqa: BLE001
                    obs[point] = ("other", f"{type(e).__name__}: {e}"[:300])
            for point, exp in (("get_args", exp_a), ("get_initial_conditions", exp_i)):
                kind, payload = obs[point]
                if kind != "values":
                    viols.append(core.viol(f"valid graph rejected after an initial value was changed ({kind})", None, point=point, payload=payload, spec=spec, changed=tgt, tag=tag))
                    break
                bad = {k: (v, exp.get(k)) for k, v in payload.items() if k in exp and not core.close(v, exp[k])}
                if bad:
                    viols.append(core.viol("values do not follow an initial value that was changed after an evaluation", None, point=point, bad=bad, spec=spec, changed=tgt, tag=tag))
                    break
    if ref_missing and not ref_cycle and not viols:
        # the same graph reached by a history: every name is declared (the missing ones as parameters), the model is
        # evaluated, and then those parameters are removed again - in bulk (a list, a generator) or one by one
        import copy

        names = sorted({n for lst in ref_missing.values() for n in lst})
        sp = copy.deepcopy(spec)
        sp["components"] = [{"kind": "parameter", "name": n, "value": 1.5} for n in names] + sp["components"]
        how = ["bulk_list", "bulk_generator", "one_by_one"][_STATE["calls"] % 3]
        try:
            model = rm.build(sp)
            model.get_args()
            model.get_right_hand_side()
            if how == "bulk_list":
                model.remove_parameters(list(names))
            elif how == "bulk_generator":
                model.remove_parameters(n for n in names)
            else:
                for n in names:
                    model.remove_parameter(n)
        except Exception:  # noqa: BLE001
            model = None  # (a component kind that cannot be evaluated with a placeholder value: nothing to observe)
        if model is not None:
            HISTORY[how] = HISTORY.get(how, 0) + 1
            for point, (kind, payload) in _observe(model).items():
                if not (kind == "missing" and _missing_msg_ok(payload, ref_missing)):
                    what = "numbers returned after the parameters a component names were removed" if kind == "values" else f"missing names not reported exactly after their removal ({kind})"
                    viols.append(core.viol(what, None, point=point, got=payload, expected=ref_missing, spec=spec, removal=how, tag=tag))
                    break
    return viols, info


HISTORY: dict[str, int] = {}


def _build_by_swap(spec: dict, idx: int):  # noqa: ANN202
    import copy

    from mxlpy.surrogates.abstract import MockSurrogate

    c = spec["components"][idx]
    plain = [x["name"] for x in spec["components"] if x["kind"] in ("parameter", "variable") and "value" in x]
    if not plain:
        return None
    pre = copy.deepcopy(spec)
    pre["components"][idx]["args"] = [plain[0]] * len(c["args"])
    try:
        model = rm.build(pre)
    except Exception:  # noqa: BLE001
        return None
    try:
        model.get_args()
    except Exception:  # noqa: BLE001, S110
        pass  # (the rest of the graph is not valid either: the swap is still made)
    try:
        if c["kind"] == "surrogate":
            model.update_surrogate(c["name"], MockSurrogate(fn=rm.fn_of(c), args=list(c["args"]), outputs=list(c["outputs"]), stoichiometries={
                f: {k: rm._coef_real_surrogate(v) for k, v in st.items()} for f, st in c.get("stoich", {}).items()}))  # noqa: SLF001
            HISTORY["surrogate exchanged for a new object that carries its own names"] = HISTORY.get("surrogate exchanged for a new object that carries its own names", 0) + 1
        elif c["kind"] == "derived":
            model.update_derived(c["name"], args=list(c["args"]))
        else:
            model.update_reaction(c["name"], args=list(c["args"]))
    except Exception:  # noqa: BLE001
        return None  # (an edit that is refused at once is C03's subject)
    return model


def _missing_msg_ok(msg: str, expected: dict[str, list[str]]) -> bool:
    """Message names exactly the missing names (quoted) and every offending component."""
    body = msg.split("\n", 1)[1] if "\n" in msg else msg
    quoted = set(re.findall(r"'([^']+)'", body))
    union = {n for v in expected.values() for n in v}
    return quoted == union and all(re.search(rf"\b{re.escape(k)}\b", body) for k in expected)


class _shell:  # noqa: N801
    """Minimal object exposing what Ref.classify_graph needs without evaluating."""

    def __init__(self, spec: dict) -> None:
        self.spec = spec
        self.comps = spec["components"]
        self.provider = {}
        for c in self.comps:
            if c["kind"] == "surrogate":
                for o in c["outputs"]:
                    self.provider[o] = c
            else:
                self.provider[c["name"]] = c

    requires = rm.Ref.requires


def _n_dependent(spec: dict) -> int:
    """Number of sortable components that require another sortable component."""
    sh = _shell(spec)
    n = 0
    for c in sh.comps:
        for a in sh.requires(c):
            p = sh.provider.get(a)
            if p is not None and p is not c and (p["kind"] in ("derived", "reaction", "surrogate") or "ia" in p):
                n += 1
                break
    return n


def _only_self_loops(spec: dict) -> bool:
    """True if removing self-edges makes the graph acyclic."""
    import copy

    s = copy.deepcopy(spec)
    for c in s["components"]:
        own = set(c.get("outputs", [])) | {c["name"]}
        if "ia" in c:
            c["ia"]["args"] = [a for a in c["ia"]["args"] if a not in own]
        elif "args" in c:
            c["args"] = [a for a in c["args"] if a not in own]
    return not rm.Ref.classify_graph(_shell(s))[1]


def run_case(case: dict) -> dict:
    viols: list[dict] = []
    counters = {"graphs": 0, "graph_x_order": 0, "g:missing": 0, "g:cycle": 0, "g:ok": 0, "g:both": 0}
    sigs: list[str] = []
    sample = None
    if case["kind"] == "exh":
        n = case["n"]
        k = n + 3  # p, x, d0.., v
        base = [0, 1]
        dpos = list(range(2, 2 + n))
        orders = [base + list(p) + [2 + n] for p in itertools.permutations(dpos)]
        for code in range(case["lo"], case["hi"]):
            spec = exh_spec(n, code)
            v, info = check_graph(spec, orders, f"exh{n}")
            viols.extend(v[:2])
            counters["graphs"] += 1
            counters["graph_x_order"] += len(orders)
            key = "g:both" if info["missing"] and info["cycle"] else "g:missing" if info["missing"] else "g:cycle" if info["cycle"] else "g:ok"
            counters[key] += 1
            if key != "g:ok" or _n_dependent(spec) >= 2:
                sigs.append(f"e{n}:{code}")
            if len(viols) > 8:
                break
        counters[f"exhaustive_graphs_n{n}"] = case["hi"] - case["lo"]
        sample = {"exhaustive_chunk": case, "example": exh_spec(n, case["lo"] + 5)} if case["lo"] == 0 else None
        sig = f"exh:{n}:{case['lo']}"
    else:
        rng = core.rng_for(case["seed"])
        for j in range(case["count"]):
            spec, tag = _big_spec(rng) if case.get("big") else _mixed_spec(rng)
            ncomp = len(spec["components"])
            ident = list(range(ncomp))
            orders = [ident, ident[::-1]]
            for _ in range(3):
                o = ident[:]
                rng.shuffle(o)
                orders.append(o)
            v, info = check_graph(spec, orders, tag)
            viols.extend(v[:2])
            counters["graphs"] += 1
            counters["graph_x_order"] += len(orders)
            counters[f"shape:{tag}"] = counters.get(f"shape:{tag}", 0) + 1
            key = "g:both" if info["missing"] and info["cycle"] else "g:missing" if info["missing"] else "g:cycle" if info["cycle"] else "g:ok"
            counters[key] += 1
            if key != "g:ok" or _n_dependent(spec) >= 2:
                sigs.append(core.sha(spec))
            if j == 0 and case.get("idx", 0) % 40 == 0:
                sample = {"tag": tag, "spec": spec}
            if len(viols) > 8:
                break
        sig = f"s:{case['seed']}"
    # dedupe violations by (what, mechanism)
    seen = set()
    out = []
    for v in viols:
        k = (v["what"], v["mechanism"])
        if k not in seen:
            seen.add(k)
            out.append(v)
    counters["sort_loop_iterations_monitored"] = int(_STATE["armed"])
    counters["max_iter_ratio_x1000"] = 0
    for how_, n_ in HISTORY.items():
        counters[how_ if how_.startswith(("initial value", "parameter values")) else f"names removed after an evaluation ({how_})"] = n_
    HISTORY.clear()
    res = core.result(sig=sig, nontrivial=True, sigs=sigs, violations=out, counters=counters, sample=sample,
                      info={"max_ratio": _STATE["max_ratio"], "n_graph_orders": counters["graph_x_order"]})
    return res


def finalize(results: list[dict], tier: str, counters) -> dict:  # noqa: ANN001
    inc = []
    if not counters.get("sort_loop_iterations_monitored"):
        inc.append("termination monitor could not locate the retry loop of _sort_dependencies")
    mx = max((r.get("info", {}).get("max_ratio", 0.0) for r in results), default=0.0)
    exh = {k: v for k, v in counters.items() if k.startswith("exhaustive_graphs_")}
    return {
        "inconclusive": inc,
        "evaluations": int(counters.get("graph_x_order", 0)),
        "max_observed_loop_iterations_over_n_squared": mx,
        "exhaustive": False,
        "exhaustive_layer": {"enumerated_graphs": exh, "all_declaration_orders": True, "complete": True},
        "note": "distinct_nontrivial counts distinct graphs (each built in several declaration orders); graph x order pairs are in monitor_counters.graph_x_order",
    }
