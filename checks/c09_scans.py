"""C09 — scans equal independent runs, row-aligned, under any scheduling.

Oracle: an independent simulation of a deep copy of the pristine model with
exactly the row's values applied (same Simulator call), tolerance 1e-9.
Schedules: sequential, and parallel on emulated machines with 1/2/3/5/16 cores
(max_workers where the API has it, multiprocessing.cpu_count patched in the
harness otherwise); the public worker= parameter receives a wrapper that logs
(pid, start, end) and injects per-row delays so completion order differs from
submission order.  Views are read only after the whole scan finished and again
after mutating the caller's model.
"""

from __future__ import annotations

import copy
import multiprocessing
import os
import tempfile

import numpy as np
import pandas as pd
from pathlib import Path

from mon import core, scanwrap
from mon import refmodel as rm
from mon.fnlib import basic as fl
from mon.linmodel import gen_linnet

LEVEL = "exploration"
RULE = (
    "scan.{steady_state,time_course,protocol,protocol_time_course} and mc.{steady_state,time_course,protocol,"
    "protocol_time_course,scan_steady_state} over tables with 1..3 columns mixing parameters and initial values, 1..40 "
    "rows with non-default labels, on linear networks incl. one whose rate constant is an InitialAssignment of an "
    "initial value, with rows that fail (finite-time blow-up / no steady state); each scan run sequentially and in "
    "parallel on 1/2/3/5/16 emulated cores with injected per-row delays. non-trivial = scan has >=2 rows that give "
    "different results and ran in >=2 execution modes; distinct = (model, table, kind) hash"
)
ASSUMPTIONS = [
    "oracle = same Simulator call on copy.deepcopy(pristine model) with the row applied",
    "emulated core counts patch multiprocessing.cpu_count in the harness process only",
]
N = {"quick": 72, "thorough": 3000}
MIN_NONTRIVIAL = {"quick": 12, "thorough": 200}
WORKERS = {"quick": 8, "thorough": 8}
CASE_TIMEOUT = 900
KINDS = ["scan.steady_state", "scan.time_course", "scan.protocol", "scan.protocol_time_course",
         "mc.steady_state", "mc.time_course", "mc.protocol", "mc.protocol_time_course", "mc.scan_steady_state"]


def gen_cases(tier: str, seed: int) -> list[dict]:
    n = max(len(KINDS), int(N[tier] * float(os.environ.get("VERIF_SCALE", "1"))))
    # every other steady-state case is one in which base initial values (y0) and an initial-value column of the table name
    # the same variable, on a model whose steady state depends on that initial value
    return [{"seed": f"{seed}:C09:{i}", "kind": KINDS[i % len(KINDS)], "overlap": "steady_state" in KINDS[i % len(KINDS)] and (i // len(KINDS)) % 2 == 0} for i in range(n)]


def build_model(rng, p_ia: float = 0.5) -> tuple[dict, dict]:  # noqa: ANN001
    """Linear net + blow-up switch (kq) + optionally a rate constant defined by initial assignment of an initial value."""
    net = gen_linnet(rng, n_max=3)
    spec = net.spec()
    # failure switch: a row with kz = 0 makes the injected integrator (mon.scanwrap.flaky_scipy) fail at once
    spec["components"].append({"kind": "parameter", "name": "kz", "value": 1.0})
    spec["components"].append({"kind": "parameter", "name": "kzt", "value": 1e9})  # deadline after which the injected integrator fails
    if rng.random() < 0.4:
        # a readout and a derived quantity: the scan's tables carry the same columns as an independent simulation's
        spec["components"].append({"kind": "readout", "name": "ro", "fn": fl.ref(fl.div2), "args": [net.variables[0], net.variables[-1]]})
        spec["components"].append({"kind": "derived", "name": "dsum", "fn": fl.ref(fl.add2), "args": [net.variables[0], net.variables[-1]]})
    if rng.random() < 0.35:
        # a rate term that is exactly 0.0 through a silent floating-point underflow (numpy's default): no row fails for it
        spec["components"].append({"kind": "reaction", "name": "vtail", "fn": fl.ref(fl.gauss_tail), "args": [net.variables[0], "k1"], "stoich": {net.variables[0]: -1}})
    kout = [r["k"] for r in net.rxns if r["name"] == "vout"][0]
    A0, _ = net.Ab(net.params | {kout: 0.0})
    info = {"ia": False, "params": [p for p in net.params], "variables": list(net.variables), "kout_name": kout,
            "kout": kout if abs(np.linalg.det(A0)) < 1e-12 and kout != "k1" else None}
    if rng.random() < p_ia:
        # k1 := 0.5 + 0.7*x0(0)  (parameter computed from an initial value)
        for c in spec["components"]:
            if c["kind"] == "parameter" and c["name"] == "k1":
                c.pop("value")
                c["ia"] = {"fn": fl.ref(fl.lin1), "args": ["x0"]}
        info["ia"] = True
        info["params"] = [p for p in info["params"] if p != "k1"]
    return spec, info


def gen_table(rng, info: dict, kind: str, force_duplicate_labels: bool = False) -> pd.DataFrame:  # noqa: ANN001
    ncol = rng.randint(1, 3)
    cols: list[str] = []
    pool = info["params"] + info["variables"]
    if info["ia"] and rng.random() < 0.8:
        cols.append("x0")
    if info["ia"] and rng.random() < 0.3:
        cols.append("k1")  # the scan overrides the parameter that the model computes from an initial value
    while len(cols) < ncol:
        c = rng.choice(pool)
        if c not in cols:
            cols.append(c)
    nrows = rng.choice([1, 2, 3, 5, 7, 12, 20, 40]) if "scan_steady_state" not in kind else rng.choice([1, 2, 4])
    if force_duplicate_labels:
        nrows = max(nrows, 2)
    data = {c: [round(rng.uniform(0.3, 2.5), 3) for _ in range(nrows)] for c in cols}
    df = pd.DataFrame(data)
    fail_rows: list[int] = []
    if nrows >= 2 and rng.random() < 0.5 and "scan_steady_state" not in kind:
        df["kz"] = 1.0
        for r in rng.sample(range(nrows), min(nrows - 1, rng.randint(1, 2))):
            df.loc[r, "kz"] = 0.0
            fail_rows.append(r)
    labels = rng.choice(["default", "offset", "str", "shuffled", "duplicate", "float", "dotted"])
    if force_duplicate_labels:
        labels = "duplicate"
    if labels == "duplicate" and nrows >= 2:
        # row labels need not be unique (pd.concat of two tables without ignore_index): rows are still rows
        df.index = [i % max(1, (nrows + 1) // 2) for i in range(nrows)]
    if labels == "offset":
        df.index = [10 + 3 * i for i in range(nrows)]
    elif labels == "str":
        df.index = [f"r{i}" for i in range(nrows)]
    elif labels == "float":
        df.index = [1.0 + 0.25 * i for i in range(nrows)]  # rows labelled by a scanned value
    elif labels == "dotted":
        df.index = [f"run.{chr(97 + i % 26)}{i // 26}" for i in range(nrows)]
    elif labels == "shuffled":
        idx = list(range(nrows))
        rng.shuffle(idx)
        df.index = idx
    return df, fail_rows


def run_scan(kind: str, model, table: pd.DataFrame, extra: dict, mode: dict):  # noqa: ANN001, ANN201
    from mxlpy import mc, scan

    w = scanwrap.Wrapped(kind.split(".")[1])
    if kind.startswith("scan."):
        f = getattr(scan, kind.split(".")[1])
        old = multiprocessing.cpu_count
        if mode["parallel"]:
            multiprocessing.cpu_count = lambda: mode["cores"]  # emulated machine
        try:
            return f(model, to_scan=table, parallel=mode["parallel"], worker=w, integrator=scanwrap.flaky_scipy, **extra)
        finally:
            multiprocessing.cpu_count = old
    f = getattr(mc, kind.split(".")[1])
    return f(model, mc_to_scan=table, max_workers=mode["cores"], worker=w, integrator=scanwrap.flaky_scipy, **extra)


def oracle_row(kind: str, pristine, row: pd.Series, extra: dict):  # noqa: ANN001, ANN201
    """Independent simulation of a fresh copy with exactly this row applied."""
    from mxlpy import Simulator

    m = copy.deepcopy(pristine)
    if extra.get("y0"):
        m.update_variables(extra["y0"])  # base initial values of the whole scan; the row's own values come on top
    d = row.to_dict()
    # rows that must fail are known from the injected faults themselves, not from what the library's own result says
    k_ = kind.split(".")[1]
    horizon = extra["protocol"].index[-1].total_seconds() if k_ in ("protocol", "protocol_time_course") else (float(max(extra["time_points"])) if "time_points" in extra else 0.0)
    if float(d.get("kz", 1.0)) == 0.0 or float(d.get("kzt", 1e300)) < horizon:
        return None
    m.update_variables({k: v for k, v in d.items() if k in m.get_variable_names()})
    m.update_parameters({k: v for k, v in d.items() if k in m.get_parameter_names()})
    k = kind.split(".")[1]
    try:
        sim = Simulator(m, integrator=scanwrap.flaky_scipy)
        if k == "steady_state":
            sim.simulate_to_steady_state(rel_norm=bool(extra.get("rel_norm")))
        elif k == "time_course":
            sim.simulate_time_course(extra["time_points"])
        elif k == "protocol":
            sim.simulate_protocol(extra["protocol"], time_points_per_step=extra["time_points_per_step"])
        elif k == "protocol_time_course":
            sim.simulate_protocol_time_course(extra["protocol"], extra["time_points"])
    except ZeroDivisionError:
        return None
    res = sim.get_result().value
    if isinstance(res, Exception):
        return None
    if k == "steady_state":
        return res.variables.iloc[[-1]], res.fluxes.iloc[[-1]]
    return res.variables, res.fluxes


def frame_diff(a: pd.DataFrame, b: pd.DataFrame) -> str | None:
    if list(a.columns) != list(b.columns):
        return f"columns {list(a.columns)} vs {list(b.columns)}"
    if a.shape != b.shape:
        return f"shape {a.shape} vs {b.shape}"
    if not np.allclose(np.asarray(a.index, dtype=float), np.asarray(b.index, dtype=float), rtol=0, atol=1e-12):
        return "time index differs"
    x, y = a.to_numpy(float), b.to_numpy(float)
    ok = np.isclose(x, y, rtol=1e-9, atol=1e-12) | (np.isnan(x) & np.isnan(y))
    if not ok.all():
        i, j = np.argwhere(~ok)[0]
        return f"value at t={a.index[i]} {a.columns[j]}: {x[i, j]} vs {y[i, j]}"
    return None


def run_case(case: dict) -> dict:
    import mxlpy  # noqa: F401

    rng = core.rng_for(case["seed"])
    kind = case["kind"]
    # steady states of these networks depend on the start only through the assignment-defined parameter: the steady-state
    # kinds get it more often, so that base initial values (y0) and initial-value columns matter there
    overlap = bool(case.get("overlap"))
    spec, info = build_model(rng, 1.0 if overlap else 0.8 if "steady_state" in kind else 0.5)
    pristine = rm.build(spec)
    k = kind.split(".")[1]
    # (the other half of the steady-state cases: a table whose row labels repeat)
    table, fail_rows = gen_table(rng, info, kind, force_duplicate_labels="steady_state" in kind and not overlap and rng.random() < 0.5)
    if overlap and "x0" not in table.columns:
        table["x0"] = [round(rng.uniform(0.3, 2.5), 3) for _ in range(len(table))]
    extra: dict = {}
    pnames = info["params"]
    if k in ("time_course", "protocol_time_course"):
        start = rng.choice([0.0, 0.0, 0.5])
        extra["time_points"] = np.array(sorted({start + i * 0.5 for i in range(rng.randint(2, 5))}) , dtype=float)
    if k in ("protocol", "protocol_time_course"):
        pp = rng.sample(pnames, 1)
        from mxlpy import make_protocol

        durs = rng.choice([[1.0, 1.0], [0.5, 1.5], [1.0], [0.5, 0.5, 1.0]])
        extra["protocol"] = make_protocol([(d, {pp[0]: round(rng.uniform(0.3, 2.0), 3)}) for d in durs])
        table = table[[c for c in table.columns if c != pp[0]] or list(table.columns)]
        if len(durs) >= 2 and rng.random() < 0.4 and len(table) >= 2:
            # rows whose integration fails in a later protocol step, after the first step succeeded (deadline parameter kzt
            # read by the injected integrator at every call)
            table = table.copy()
            table["kzt"] = 1e9
            for r in rng.sample(range(len(table)), min(len(table) - 1, rng.randint(1, 2))):
                table.iloc[r, table.columns.get_loc("kzt")] = durs[0] + 0.25 * (float(sum(durs)) - durs[0])
                if r not in fail_rows:
                    fail_rows.append(r)
            late_failures = 1
        if k == "protocol":
            extra["time_points_per_step"] = rng.randint(1, 4)
        else:
            total = float(sum(durs))
            pts_ = {0.25 * i for i in range(1, int(total / 0.25) + 1) if rng.random() < 0.5} | {total}
            if rng.random() < 0.4:
                pts_ |= {total + 0.5, total + 1.0}  # requested points after the last protocol step (not simulated)
                beyond_end = 1
            extra["time_points"] = np.array(sorted(pts_), dtype=float)
    inner = None
    if "steady_state" in k and rng.random() < 0.4 and info["kout_name"] in pnames:
        # the relative convergence criterion on a slowly draining network with large pools: the absolute criterion stops at
        # another step there, so a run that was not told about `rel_norm` ends somewhere else
        extra["rel_norm"] = True
        table = table.copy()
        table[info["kout_name"]] = [round(rng.uniform(0.02, 0.06), 4) for _ in range(len(table))]
    if k == "scan_steady_state":
        sp = rng.choice([q for q in pnames if q != info["kout_name"] or "rel_norm" not in extra] or pnames)
        inner = pd.DataFrame({sp: [0.5, 1.5, 1.0]})
        table = table[[c for c in table.columns if c != sp] or list(table.columns)]
        if sp in table.columns:
            other = [p for p in pnames if p != sp][0]
            table = table.rename(columns={sp: other})
        extra["to_scan"] = inner
    if table.shape[1] == 0:
        table = pd.DataFrame({pnames[0]: [0.7, 1.3]})
        fail_rows = []
    if overlap:
        extra["y0"] = {"x0": round(rng.uniform(0.3, 2.5), 3)}
        if rng.random() < 0.5 and len(info["variables"]) > 1:
            extra["y0"][info["variables"][-1]] = round(rng.uniform(0.3, 2.5), 3)
    elif rng.random() < (0.7 if "steady_state" in kind else 0.4):
        # base initial values for the whole scan; where the table (or the outer Monte-Carlo table) has a column for the
        # same variable, the row's value is the one that counts
        tv = [c for c in table.columns if c in info["variables"]]
        ys = set(rng.sample(tv, 1)) if tv and rng.random() < 0.7 else set()
        ys |= set(rng.sample(info["variables"], 1))
        extra["y0"] = {v: round(rng.uniform(0.3, 2.5), 3) for v in sorted(ys)}
    if table.index.is_unique and rng.random() < 0.35:
        # (results are stored under their row label: tables whose labels repeat are left to the open finding on such tables)
        # an (empty) result cache is handed to the scan: every mode below runs on the same directory, so the later ones read
        # what the first one stored; rows stay rows
        from mxlpy.parallel import Cache

        extra["cache"] = Cache(tmp_dir=Path(tempfile.mkdtemp(prefix="c09cache-", dir=os.environ.get("VERIF_WORKDIR", "/tmp"))))  # noqa: S108
    modes = [{"parallel": False, "cores": 0}] if kind.startswith("scan.") else []
    cores = rng.sample([1, 2, 3, 5, 16], 2)
    modes += [{"parallel": True, "cores": c} for c in cores]
    viols: list[dict] = []
    counters: dict[str, int] = {f"kind:{kind}": 1, "rows": len(table), "failing_rows_planned": len(fail_rows),
                                "with_y0": int("y0" in extra), "scans_with_a_result_cache": int("cache" in extra), "steady_state_scans_with_the_relative_norm_on_a_slow_network": int("rel_norm" in extra), "model_with_a_silently_underflowing_rate_term": int(any(c["name"] == "vtail" for c in spec["components"])), "y0_and_a_table_column_name_the_same_variable": int(any(c in extra.get("y0", {}) for c in table.columns)), "time_points_beyond_the_protocol": int("beyond_end" in locals()), "rows_failing_in_a_later_protocol_step": int("late_failures" in locals()), "duplicate_row_labels": int(not table.index.is_unique), "column_overrides_assignment_defined_parameter": int(info["ia"] and "k1" in table.columns), "y0_overlaps_table_column": int(any(v in table.columns for v in extra.get("y0", {})))}
    ctx = {"kind": kind, "table": {"index": [str(i) for i in table.index], **{c: table[c].tolist() for c in table.columns}},
           "extra": {kk: (v.tolist() if hasattr(v, "tolist") else str(v)) for kk, v in extra.items()}, "ia_model": info["ia"], "spec": spec}
    # ---- oracle per row ------------------------------------------------------
    expected = []
    if k == "scan_steady_state":
        for _, row in table.iterrows():
            per = []
            for _, irow in inner.iterrows():
                per.append(oracle_row("x.steady_state", pristine, pd.concat([row, irow]), extra))
            expected.append(per)
    else:
        for _, row in table.iterrows():
            expected.append(oracle_row(kind, pristine, row, extra))
    n_fail = sum(1 for e in expected if e is None) if k != "scan_steady_state" else 0
    counters["failing_rows_observed_in_oracle"] = n_fail
    distinct_rows = len({str(e[0].to_numpy().round(9).tolist()) if e is not None and k != "scan_steady_state" else str(i) for i, e in enumerate(expected)})
    logdir = tempfile.mkdtemp(prefix="scanlog-")
    pids_all, orders = set(), set()
    for mode in modes:
        model = copy.deepcopy(pristine)
        log = os.path.join(logdir, f"log-{mode['parallel']}-{mode['cores']}.txt")
        os.environ["VERIF_SCANLOG"] = log
        tag = f"{'parallel' if mode['parallel'] else 'sequential'}:{mode['cores']}"
        counters[f"mode:{tag}"] = 1
        try:
            res = run_scan(kind, model, table, extra, mode)
        except Exception as e:  # noqa: BLE001
            import traceback

            viols.append(core.viol("scan raised", None, mode=tag, error=traceback.format_exc()[-700:], **ctx))
            continue
        finally:
            os.environ.pop("VERIF_SCANLOG", None)
        if os.path.exists(log):
            lines = [ln.split() for ln in open(log).read().splitlines() if ln.strip()]
            pids_all.update(ln[0] for ln in lines)
            orders.add(tuple(ln[3] for ln in sorted(lines, key=lambda x: float(x[2]))))
            counters["worker_calls_logged"] = counters.get("worker_calls_logged", 0) + len(lines)
        # hostile reading order: nothing was read so far; read fluxes first, then mutate the caller's model, then variables
        try:
            for phase in ("after_scan", "after_mutating_callers_model"):
                if phase == "after_mutating_callers_model":
                    model.update_parameters({p: 9.0 for p in pnames[:1]})
                    model.update_variables({v: 7.0 for v in info["variables"][:1]})
                flx, var = res.fluxes, res.variables
                v = compare(kind, table, inner, expected, var, flx, pristine)
                mech_ = None
                if v and not table.index.is_unique and k not in ("steady_state",):
                    # attribution: the same rows under unique labels must come back right (the containers of these kinds are
                    # keyed by row label and cannot hold two rows with one label)
                    try:
                        t2 = table.reset_index(drop=True)
                        r2 = run_scan(kind, copy.deepcopy(pristine), t2, extra, mode)
                        if not compare(kind, t2, inner, expected, r2.variables, r2.fluxes, pristine):
                            mech_ = "C09-duplicate-row-labels"
                            counters["unique_label_twin_agrees"] = counters.get("unique_label_twin_agrees", 0) + 1
                    except Exception:  # noqa: BLE001
                        mech_ = None
                for x in v:
                    viols.append(core.viol(x.pop("what"), mech_, mode=tag, phase=phase, **x, **ctx))
                counters["rows_compared"] = counters.get("rows_compared", 0) + len(table)
                if v:
                    break
        except Exception:  # noqa: BLE001
            import traceback

            viols.append(core.viol("reading scan results raised", None, mode=tag, error=traceback.format_exc()[-900:], **ctx))
    import shutil

    shutil.rmtree(logdir, ignore_errors=True)
    counters["distinct_worker_pids"] = len(pids_all)
    counters["distinct_completion_orders"] = len(orders)
    seen = set()
    out = []
    for v in viols:
        key = (v["what"], v["detail"].get("mode", "").split(":")[0])
        if key not in seen:
            seen.add(key)
            out.append(v)
    return core.result(sig=core.sha(ctx), nontrivial=distinct_rows >= 2 and len(modes) >= 2, violations=out[:5], counters=counters,
                       sample={k2: v for k2, v in ctx.items() if k2 != "spec"} if case.get("idx", 0) < 3 else None,
                       info={"pids": len(pids_all), "orders": len(orders)})


def compare(kind: str, table: pd.DataFrame, inner, expected: list, var: pd.DataFrame, flx: pd.DataFrame, pristine) -> list[dict]:  # noqa: ANN001
    k = kind.split(".")[1]
    out: list[dict] = []
    nvars = len(pristine.get_variable_names())
    if k == "steady_state":
        want_idx = table.iloc[:, 0].tolist() if table.shape[1] == 1 else [tuple(r) for r in table.itertuples(index=False)]
        got_idx = [tuple(i) if isinstance(i, tuple) else i for i in var.index.tolist()]
        if got_idx != want_idx:
            return [{"what": "scan result index differs from the input rows", "got": got_idx[:6], "expected": want_idx[:6]}]
        for i, e in enumerate(expected):
            gv, gf = var.iloc[[i]], flx.iloc[[i]]
            if e is None:
                if not np.isnan(gv.to_numpy(float)).all():
                    out.append({"what": "failing row is not a NaN placeholder at its own position", "row": i, "got": gv.iloc[0].to_dict()})
                elif gv.shape[1] != len(var.columns):
                    out.append({"what": "NaN placeholder has the wrong shape", "row": i})
                continue
            ev, ef = e
            for g, x, name in ((gv, ev, "variables"), (gf, ef, "fluxes")):
                if set(g.columns) != set(x.columns):
                    out.append({"what": f"scan table has other columns than an independent simulation of the row ({name})", "row": i, "scan": list(g.columns), "independent": list(x.columns)})
                    return out
                a = g.to_numpy(float)[0]
                b = x[list(g.columns)].to_numpy(float)[0]
                if not np.allclose(a, b, rtol=1e-9, atol=1e-12):
                    out.append({"what": f"scan row differs from an independent simulation of that row ({name})", "row": i, "got": dict(zip(g.columns, a.tolist())), "expected": dict(zip(g.columns, b.tolist()))})
                    return out
        return out
    if k == "scan_steady_state":
        # rows come back in the order of the input rows: outer row by outer row, the inner table's rows in their order
        # (the inner values are not ascending, and the outer labels often are not)
        want_order = [(str(label), float(v)) for label in table.index for v in inner.iloc[:, 0]]
        for nm, fr in (("variables", var), ("fluxes", flx)):
            got_order = [(str(a), float(b)) for a, b in fr.index]
            if got_order != want_order:
                return [{"what": f"scan result order / labels differ from the input rows ({nm} of the nested scan)", "got": [str(x) for x in got_order[:8]], "expected": [str(x) for x in want_order[:8]]}]
        for i, (label, per) in enumerate(zip(table.index, expected)):
            for j, e in enumerate(per):
                if e is None:
                    continue
                ev, ef = e
                key = (label, inner.iloc[j, 0])
                try:
                    g = var.loc[key]
                    gf = flx.loc[key]
                except KeyError:
                    return [{"what": "mc scan result is not indexed by (row label, scanned value)", "key": str(key), "index": [str(x) for x in var.index[:6]]}]
                if not np.allclose(g.to_numpy(float), ev[list(g.index)].to_numpy(float)[0], rtol=1e-9, atol=1e-12):
                    return [{"what": "scan row differs from an independent simulation of that row (variables)", "row": str(key), "got": g.to_dict(), "expected": ev.iloc[0].to_dict()}]
                if not np.allclose(gf.to_numpy(float), ef[list(gf.index)].to_numpy(float)[0], rtol=1e-9, atol=1e-12):
                    return [{"what": "scan row differs from an independent simulation of that row (fluxes)", "row": str(key), "got": gf.to_dict(), "expected": ef.iloc[0].to_dict()}]
        return out
    # time-course kinds: MultiIndex (row label, time)
    labels = list(dict.fromkeys(var.index.get_level_values(0)))
    if labels != list(table.index):
        return [{"what": "scan result order / labels differ from the input rows", "got": [str(x) for x in labels[:8]], "expected": [str(x) for x in list(table.index)[:8]]}]
    ok_shapes = {e[0].shape for e in expected if e is not None}
    for i, (label, e) in enumerate(zip(table.index, expected)):
        gv, gf = var.loc[label], flx.loc[label]
        if e is None:
            if not np.isnan(gv.to_numpy(float)).all():
                out.append({"what": "failing row is not a NaN placeholder at its own position", "row": str(label)})
            elif ok_shapes and gv.shape not in ok_shapes:
                out.append({"what": "NaN placeholder has a different shape from a successful row", "row": str(label), "placeholder_shape": list(gv.shape), "successful_shapes": [list(s) for s in ok_shapes],
                            "placeholder_index": [float(x) for x in gv.index], })
            continue
        ev, ef = e
        if set(gv.columns) != set(ev.columns) or set(gf.columns) != set(ef.columns):
            out.append({"what": "scan table has other columns than an independent simulation of the row", "row": str(label), "scan": [list(gv.columns), list(gf.columns)], "independent": [list(ev.columns), list(ef.columns)]})
            return out
        d = frame_diff(gv, ev[list(gv.columns)]) or frame_diff(gf, ef[list(gf.columns)])
        if d:
            out.append({"what": "scan row differs from an independent simulation of that row", "row": str(label), "diff": d})
            return out
    return out


def finalize(results: list[dict], tier: str, counters) -> dict:  # noqa: ANN001
    inc = []
    for kk in KINDS:
        if not counters.get(f"kind:{kk}"):
            inc.append(f"scan kind {kk} never ran")
    if not counters.get("rows_compared"):
        inc.append("no row compared")
    if counters.get("distinct_worker_pids", 0) < 2:
        inc.append("parallel runs never used two different worker processes")
    return {
        "inconclusive": inc,
        "schedules": {
            "distinct_worker_pids_summed_over_cases": counters.get("distinct_worker_pids", 0),
            "distinct_completion_orders_summed_over_cases": counters.get("distinct_completion_orders", 0),
            "worker_calls_logged": counters.get("worker_calls_logged", 0),
            "modes": {k2[5:]: v for k2, v in counters.items() if k2.startswith("mode:")},
        },
    }
