"""C10 — result views are consistent functions of states and segment parameters.

Oracle: the reference evaluator (mon.refmodel.Ref) applied to each reported row
(state, time) under the parameter values the harness itself put in force for
that row's segment.  Every view method is read twice, in random order, with
random flag combinations and all normalisation shapes, after the model's
parameters have been changed again.
"""

from __future__ import annotations

import copy
import itertools
import os

import numpy as np
import pandas as pd

from mon import core
from mon import refmodel as rm
from mon.fnlib import basic as fl

LEVEL = "exploration"
RULE = (
    "multi-segment results (2..4 segments, 1-2 parameters changed in between incl. those feeding named / computed "
    "coefficients of fixed sign) on models with static and dynamic derived quantities, time-dependent derived, "
    "readouts and (half of the cases) a two-output surrogate; model parameters changed again after the result was "
    "taken; ~24 view reads per result in random order, each view twice, flags x concatenated x normalise in "
    "{None, scalar, per-segment list, per-row array}. non-trivial = >=2 segments with a changed parameter that "
    "changes a flux or coefficient; distinct = (model, history, read order) hash"
)
ASSUMPTIONS = ["reference evaluator mon/refmodel.py", "coefficient signs constant across segments (the statement does not define producers under a sign flip)"]
N = {"quick": 200, "thorough": 12000}
MIN_NONTRIVIAL = {"quick": 50, "thorough": 800}


def gen_cases(tier: str, seed: int) -> list[dict]:
    n = max(4, int(N[tier] * float(os.environ.get("VERIF_SCALE", "1"))))
    return [{"seed": f"{seed}:C10:{i}"} for i in range(n)]


def gen_model(rng) -> dict:  # noqa: ANN001
    L = fl.ref
    pv = lambda: round(rng.uniform(0.3, 2.0), 3)  # noqa: E731
    comps = [
        {"kind": "parameter", "name": "kin", "value": pv()}, {"kind": "parameter", "name": "k1", "value": pv()},
        {"kind": "parameter", "name": "k2", "value": pv()}, {"kind": "parameter", "name": "k3", "value": pv()},
        {"kind": "parameter", "name": "c1", "value": pv()},
        {"kind": "variable", "name": "x0", "value": pv()}, {"kind": "variable", "name": "x1", "value": pv()}, {"kind": "variable", "name": "x2", "value": pv()},
        {"kind": "reaction", "name": "vin", "fn": L(fl.lin_const), "args": ["kin"], "stoich": {"x0": 1}},
        {"kind": "reaction", "name": "v1", "fn": L(fl.lin_ma), "args": ["k1", "x0"], "stoich": {"x0": -1, "x1": "c1"}},
        {"kind": "reaction", "name": "v2", "fn": L(fl.lin_ma), "args": ["k2", "x1"], "stoich": {"x1": -1, "x2": {"fn": L(fl.sq1), "args": ["k3"]}}},
        {"kind": "reaction", "name": "v3", "fn": L(fl.lin_ma), "args": ["k3", "x2"], "stoich": {"x2": -1.5}},
    ]
    if rng.random() < 0.6:
        comps.append({"kind": "reaction", "name": "v4", "fn": L(fl.mm2), "args": ["x0", "k2"], "stoich": {"x0": -1, "x2": 0.5}})
    if rng.random() < 0.8:
        comps.append({"kind": "derived", "name": "dp", "fn": L(fl.add2), "args": ["k1", "k2"]})
        comps.append({"kind": "derived", "name": "dv", "fn": L(fl.mul2), "args": ["x0", "dp"]})
    if rng.random() < 0.6:
        comps.append({"kind": "derived", "name": "dt", "fn": L(fl.add2), "args": ["x1", "time"]})
    if rng.random() < 0.7:
        comps.append({"kind": "readout", "name": "ro", "fn": L(fl.div2), "args": ["x0", "x1"]})
    if rng.random() < 0.5:
        comps.append({"kind": "surrogate", "name": "sur", "fn": L(fl.s2_2), "args": ["x0", "k1"], "outputs": ["sflux", "svar"], "stoich": {"sflux": {"x1": 1.0, "x0": {"fn": L(fl.neg_sq1), "args": ["c1"]}}}})
    if rng.random() < 0.5:
        # a coefficient that depends on the state (positive everywhere): derivatives are N(state) x fluxes row by row
        comps.append({"kind": "reaction", "name": "vd", "fn": L(fl.lin_ma), "args": ["k1", "x1"], "stoich": {"x1": -1, "x2": {"fn": L(fl.sat1), "args": ["x0"]}}})
        if rng.random() < 0.6:
            # a second reaction with a state-dependent coefficient on the same variable: both count
            comps.append({"kind": "reaction", "name": "vd2", "fn": L(fl.lin_ma), "args": ["k2", "x0"], "stoich": {"x0": -1, "x2": {"fn": L(fl.sat1), "args": ["x1"]}}})
    if rng.random() < 0.4:
        # coefficients that are exactly zero (numeric, and computed as k1 - k1 by a function): such a flux is neither producer nor consumer
        comps.append({"kind": "reaction", "name": "vz", "fn": L(fl.lin_ma), "args": ["k2", "x0"], "stoich": {"x0": -1, "x1": 0, "x2": {"fn": L(fl.zero1), "args": ["k1"]}}})
    if rng.random() < 0.3:
        comps.append({"kind": "parameter", "name": "kq", "ia": {"fn": L(fl.add2), "args": ["k1", "x0"]}})
        comps.append({"kind": "derived", "name": "dq", "fn": L(fl.mul2), "args": ["kq", "x2"]})
    spec = {"components": comps}
    return rm.shuffled(spec, rng)


def with_params(spec: dict, params: dict) -> dict:
    s = copy.deepcopy(spec)
    for c in s["components"]:
        if c["kind"] == "parameter" and c["name"] in params and "ia" not in c:
            c["value"] = params[c["name"]]
    return s


def frames_equal(a, b, tol: float = 1e-9) -> str | None:  # noqa: ANN001
    if list(a.columns) != list(b.columns):
        return f"columns differ: {list(a.columns)} vs {list(b.columns)}"
    if len(a) != len(b) or not np.allclose(np.asarray(a.index, float), np.asarray(b.index, float), rtol=0, atol=1e-12):
        return "index differs"
    x, y = a.to_numpy(dtype=float), b.to_numpy(dtype=float)
    bad = ~(np.isclose(x, y, rtol=tol, atol=tol) | (np.isnan(x) & np.isnan(y)))
    if bad.any():
        i, j = np.argwhere(bad)[0]
        return f"value differs at row {a.index[i]} column {a.columns[j]}: {x[i, j]} vs {y[i, j]}"
    return None


def run_case(case: dict) -> dict:
    from mxlpy import Simulator

    rng = core.rng_for(case["seed"])
    spec = gen_model(rng)
    model = rm.build(spec)
    sim = Simulator(model)
    params = {c["name"]: c["value"] for c in spec["components"] if c["kind"] == "parameter" and "ia" not in c}
    seg_params: list[dict] = []
    history = []
    t = 0.0
    nseg = rng.randint(2, 4)
    tiny_updates = 0
    mid_reads = 0
    scaled_between = [0]
    for i in range(nseg):
        if i > 0:
            upd = {p: round(rng.uniform(0.3, 2.0), 3) for p in rng.sample(sorted(params), rng.randint(1, 2))}
            if rng.random() < 0.3:
                # a nudge: the segment's values differ from the previous segment's by a relative 1e-6 .. 1e-5 only
                upd = {p: params[p] * (1.0 + rng.choice([1e-6, -3e-6, 8e-6])) for p in upd}
                tiny_updates += 1
            how = core.rng_for(case["seed"] + f":how{i}").choice(["update", "update", "scale_one", "scale_many", "scale_on_model"])
            if how == "update":
                sim.update_parameters(upd)
            else:
                # the same new values reached by scaling what is there (through the simulator or on its model)
                fac = {p: upd[p] / params[p] for p in upd}
                if how == "scale_one":
                    for p, f in fac.items():
                        sim.scale_parameter(p, f)
                elif how == "scale_many":
                    sim.scale_parameters(dict(fac))
                else:
                    for p, f in fac.items():
                        model.scale_parameter(p, f)
                upd = {p: params[p] * fac[p] for p in upd}
                scaled_between[0] += 1
            params = params | upd
            history.append({how: upd})
        t += rng.randint(2, 12) / 8.0
        if rng.random() < 0.5:
            n = rng.randint(2, 5)
            sim.simulate(t, steps=n)
            history.append({"simulate": t, "steps": n})
        else:
            t0 = t - 0.25
            pts = sorted({t0, t})
            sim.simulate_time_course(pts)
            history.append({"time_course": pts})
        seg_params.append(dict(params))
        if i < nseg - 1 and rng.random() < 0.35:
            # the result so far is taken and its views are read before the simulator goes on
            mid = sim.get_result().value
            if not isinstance(mid, Exception):
                for view in rng.sample(["fluxes", "variables", "combined", "args"], 2):
                    _ = mid.get_combined() if view == "combined" else mid.get_args() if view == "args" else getattr(mid, view)
                mid_reads += 1
                history.append({"result_taken_and_read": True})
    res = sim.get_result().value
    if isinstance(res, Exception):
        return core.result(sig=case["seed"], nontrivial=False, counters={"integration_failed": 1})
    # the model changes again after the result was taken
    later = {p: round(rng.uniform(0.3, 2.0), 3) for p in sorted(params)}
    if rng.random() < 0.25:
        later = {p: seg_params[0][p] * (1.0 + 5e-6) for p in sorted(params)}  # almost, but not, the first segment's values
        tiny_updates += 1
    model.update_parameters(later)

    raw = [f.copy() for f in res.raw_variables]
    if len(raw) != nseg:
        return core.result(sig=case["seed"], nontrivial=False, violations=[core.viol("segment count differs", None, got=len(raw), expected=nseg)])
    stitched = 0
    if nseg >= 2 and rng.random() < 0.3:
        # a piecewise result stitched by hand: every later segment starts with a row at the very time the segment before
        # ended (the state right after a pulse), so a time label occurs in two segments
        from mxlpy.simulation import Simulation

        raw2 = [raw[0]]
        for k_ in range(1, nseg):
            pulse = raw2[-1].iloc[-1].copy()
            pulse[rng.choice(list(pulse.index))] += 0.75
            raw2.append(pd.concat([pd.DataFrame([pulse], index=[raw2[-1].index[-1]]), raw[k_]]))
        res = Simulation(model=res.model, raw_variables=[f.copy() for f in raw2], raw_parameters=[dict(p_) for p_ in res.raw_parameters])
        raw = raw2
        stitched = 1
    refs = [rm.Ref(with_params(spec, p)) for p in seg_params]
    ref0 = refs[0]
    variables = ref0.variables
    dvars, dpars = ref0.derived_variables(), ref0.derived_parameters()
    readouts = ref0.names_by_kind["readout"]
    rxn = ref0.names_by_kind["reaction"]
    sur_flux = [f for c in spec["components"] if c["kind"] == "surrogate" for f in c["stoich"]]
    sur_vars = [o for c in spec["components"] if c["kind"] == "surrogate" for o in c["outputs"] if o not in c["stoich"]]
    pnames = ref0.names_by_kind["parameter"]

    # expected per-segment tables from the reference
    exp_all: list[pd.DataFrame] = []
    exp_rhs: list[pd.DataFrame] = []
    exp_st: list[dict] = []
    for ref, f in zip(refs, raw):
        rows, rrows = [], []
        for tt, row in f.iterrows():
            st = {k: float(v) for k, v in row.to_dict().items()}
            vals = ref.at(st, float(tt))
            rows.append({k: float(v) for k, v in vals.items() if not hasattr(v, "index")})
            rrows.append(ref.rhs(st, float(tt)))
        exp_all.append(pd.DataFrame(rows, index=f.index))
        exp_rhs.append(pd.DataFrame(rrows, index=f.index)[variables])
        exp_st.append(ref.stoichiometry(ref.at(None, 0.0)))
    total_rows = sum(len(f) for f in raw)

    def norm_variants() -> list:
        out = [None, rng.choice([2.0, 0.5, 4]), [rng.choice([2.0, 0.25, 3.0]) for _ in range(nseg)]]
        if total_rows != nseg:
            out.append(np.array([rng.choice([1.0, 2.0, 4.0, 0.5]) for _ in range(total_rows)]))
        return out

    def apply_norm(frames: list[pd.DataFrame], normalise) -> list[pd.DataFrame]:  # noqa: ANN001
        if normalise is None:
            return frames
        if isinstance(normalise, (int, float)):
            return [f / normalise for f in frames]
        if len(normalise) == len(frames):
            return [f / n for f, n in zip(frames, normalise)]
        out, start = [], 0
        for f in frames:
            out.append(f.div(np.asarray(normalise[start:start + len(f)], dtype=float), axis=0))
            start += len(f)
        return out

    reads = []  # (label, callable, expected-frames-or-None)

    def add_read(label: str, call, cols: list[str] | None, normalise, concatenated: bool, source: str = "all") -> None:  # noqa: ANN001
        reads.append({"label": label, "call": call, "cols": cols, "normalise": normalise, "concatenated": concatenated, "source": source})

    for flags in itertools.product([False, True], repeat=3):
        idv, iro, isv = flags
        cols = variables + (dvars if idv else []) + (sur_vars if isv else []) + (readouts if iro else [])
        for nv in rng.sample(norm_variants(), 2):
            conc = rng.random() < 0.6
            add_read(f"get_variables(dv={idv},ro={iro},sv={isv})", lambda idv=idv, iro=iro, isv=isv, nv=nv, conc=conc: res.get_variables(
                include_derived_variables=idv, include_readouts=iro, include_surrogate_variables=isv, normalise=nv, concatenated=conc), cols, nv, conc)
    add_read(".variables", lambda: res.variables, variables + dvars + sur_vars + readouts, None, True)
    add_read(".fluxes", lambda: res.fluxes, rxn + sur_flux, None, True)
    if len(variables) > 1:
        # the same points as a result assembled by hand from stored frames whose (labelled) columns are in another order
        from mxlpy.simulation import Simulation

        perm = rng.sample(variables, len(variables))
        res_perm = Simulation(model=res.model, raw_variables=[f[perm].copy() for f in raw], raw_parameters=[dict(p_) for p_ in res.raw_parameters])
        add_read(".fluxes [re-assembled result, columns permuted]", lambda: res_perm.fluxes, rxn + sur_flux, None, True)
        add_read(".variables [re-assembled result, columns permuted]", lambda: res_perm.variables, variables + dvars + sur_vars + readouts, None, True)
        add_read("get_right_hand_side [re-assembled result, columns permuted]", lambda: res_perm.get_right_hand_side(concatenated=True), variables, None, True, "rhs")
    for inc in (True, False):
        for nv in rng.sample(norm_variants(), 2):
            conc = rng.random() < 0.6
            add_read(f"get_fluxes(sur={inc})", lambda inc=inc, nv=nv, conc=conc: res.get_fluxes(include_surrogates=inc, normalise=nv, concatenated=conc),
                     rxn + (sur_flux if inc else []), nv, conc)
    for _ in range(3):
        fl_ = {k: rng.random() < 0.5 for k in ("include_variables", "include_parameters", "include_derived_parameters", "include_derived_variables",
                                              "include_reactions", "include_surrogate_variables", "include_surrogate_fluxes", "include_readouts")}
        cols = ((variables if fl_["include_variables"] else []) + (pnames if fl_["include_parameters"] else []) + (dvars if fl_["include_derived_variables"] else [])
                + (dpars if fl_["include_derived_parameters"] else []) + (rxn if fl_["include_reactions"] else []) + (sur_vars if fl_["include_surrogate_variables"] else [])
                + (sur_flux if fl_["include_surrogate_fluxes"] else []) + (readouts if fl_["include_readouts"] else []))
        nv = rng.choice(norm_variants())
        conc = rng.random() < 0.6
        add_read(f"get_args({sorted(k for k, v in fl_.items() if v)})", lambda fl_=fl_, nv=nv, conc=conc: res.get_args(**fl_, normalise=nv, concatenated=conc), cols, nv, conc)
    add_read("get_combined", lambda: res.get_combined(), variables + dvars + sur_vars + readouts + rxn + sur_flux, None, True)
    for nv in rng.sample(norm_variants(), 2):
        conc = rng.random() < 0.6
        add_read("get_right_hand_side", lambda nv=nv, conc=conc: res.get_right_hand_side(normalise=nv, concatenated=conc), variables, nv, conc, "rhs")
    for var in rng.sample(variables, 2):
        for which in ("producers", "consumers"):
            scaled = rng.random() < 0.5
            nv = rng.choice(norm_variants())
            conc = rng.random() < 0.6
            fn = res.get_producers if which == "producers" else res.get_consumers
            add_read(f"get_{which}({var},scaled={scaled})", lambda fn=fn, var=var, scaled=scaled, nv=nv, conc=conc: fn(var, scaled=scaled, normalise=nv, concatenated=conc),
                     None, nv, conc, f"{which}:{var}:{int(scaled)}")
    # each view twice, at different positions of a random order
    order = list(range(len(reads))) * 2
    rng.shuffle(order)
    got: dict[int, list] = {}
    viols: list[dict] = []
    counters = {"views_read": 0, "segments": nseg, "intermediate_results_taken_and_read_before_the_simulator_went_on": mid_reads, "results_stitched_by_hand_with_a_time_label_in_two_segments": stitched, "parameter_sets_differing_by_1e-6_relative": tiny_updates, "segments_whose_parameters_were_reached_by_scaling": scaled_between[0], "models_with_a_state_dependent_coefficient": int(any(c["name"] == "vd" for c in spec["components"])), "models_with_exactly_zero_coefficients": int(any(c["name"] == "vz" for c in spec["components"]))}
    for i in order:
        r = reads[i]
        try:
            out = r["call"]()
        except Exception as e:  # noqa: BLE001
            viols.append(core.viol("view raised", mech_of(r, e), view=r["label"], normalise=kind_of(r["normalise"], nseg), error=f"{type(e).__name__}: {e}"[:300], history=history, spec=spec))
            continue
        counters["views_read"] += 1
        counters[f"norm:{kind_of(r['normalise'], nseg)}"] = counters.get(f"norm:{kind_of(r['normalise'], nseg)}", 0) + 1
        frames = [out] if r["concatenated"] else list(out)
        # expected
        if r["source"] == "all":
            exp = [e[r["cols"]] for e in exp_all]
        elif r["source"] == "rhs":
            exp = exp_rhs
        else:
            which, var, scaled = r["source"].split(":")
            sign = 1 if which == "producers" else -1
            names = [f for f in rxn + sur_flux if sign * exp_st[0].get(var, {}).get(f, 0.0) > 0]
            exp = []
            for e, st in zip(exp_all, exp_st):
                fr = e[names].copy()
                if scaled == "1":
                    for f in names:
                        fr[f] = fr[f] * abs(st[var][f])
                exp.append(fr)
            # producers/consumers normalise the fluxes before scaling
            exp = apply_norm(exp, r["normalise"])
            r = dict(r, normalise=None)
        exp = apply_norm(exp, r["normalise"])
        exp_frames = [pd.concat(exp, axis=0)] if r["concatenated"] else exp
        if len(frames) != len(exp_frames):
            viols.append(core.viol("number of frames differs", None, view=r["label"], got=len(frames), expected=len(exp_frames)))
            continue
        for g, e in zip(frames, exp_frames):
            if set(g.columns) != set(e.columns):
                viols.append(core.viol("view columns differ from the model's names", None, view=r["label"], got=list(g.columns), expected=list(e.columns), spec=spec))
                break
            d = frames_equal(g[list(e.columns)], e)
            if d:
                viols.append(core.viol("view value differs from model evaluated at the row's state/time under its segment's parameters", None,
                                       view=r["label"], normalise=kind_of(r["normalise"], nseg), concatenated=r["concatenated"], diff=d, history=history, spec=spec))
                break
        prev = got.get(i)
        if prev is not None:
            for a, b in zip(prev, frames):
                d = frames_equal(a, b, 0.0)
                if d:
                    viols.append(core.viol("two reads of the same view differ", None, view=r["label"], diff=d))
                    break
        got[i] = [f.copy() for f in frames]
    # N v = dx/dt on reported frames
    try:
        fluxes = res.get_fluxes(concatenated=False)
        rhs = res.get_right_hand_side(concatenated=False)
        for e_st, ff, rr, ref, f in zip(exp_st, fluxes, rhs, refs, raw):
            for tt in ff.index:
                st = ref.stoichiometry(ref.at({k: float(v) for k, v in f.loc[tt].to_dict().items()}, float(tt)))
                for v in variables:
                    s = sum(c * ff.loc[tt, fx] for fx, c in st.get(v, {}).items())
                    if not core.close(s, rr.loc[tt, v], 1e-9):
                        viols.append(core.viol("stoichiometry x reported fluxes differs from reported derivatives", None, t=float(tt), variable=v, Nv=float(s), rhs=float(rr.loc[tt, v]), spec=spec))
                        raise StopIteration
        counters["Nv_vs_rhs_rows"] = sum(len(f) for f in fluxes)
    except StopIteration:
        pass
    except Exception as e:  # noqa: BLE001
        viols.append(core.viol("view raised", None, view="Nv check", error=repr(e)[:300]))
    y0n = res.get_new_y0()
    last = raw[-1].iloc[-1].to_dict()
    if any(not core.close(y0n[k], last[k], 0.0, 0.0) for k in last):
        viols.append(core.viol("get_new_y0 is not the last reported state", None, got=y0n, expected=last))
    # sensitivity: do the segment parameters matter?
    sens = False
    if nseg >= 2:
        a = refs[0].at({k: float(v) for k, v in raw[-1].iloc[-1].to_dict().items()}, 1.0)
        b = refs[-1].at({k: float(v) for k, v in raw[-1].iloc[-1].to_dict().items()}, 1.0)
        sens = any(abs(float(a[k]) - float(b[k])) > 1e-6 for k in rxn)
    seen = set()
    out = []
    for v in viols:
        k = (v["what"], v["mechanism"], v["detail"].get("view", "")[:14])
        if k not in seen:
            seen.add(k)
            out.append(v)
    return core.result(sig=core.sha([spec, history, order]), nontrivial=sens, violations=out[:5], counters=counters,
                       sample={"spec": spec, "history": history, "reads": [reads[i]["label"] for i in order[:8]]} if case.get("idx", 0) < 1 else None)


def kind_of(n, nseg: int) -> str:  # noqa: ANN001
    if n is None:
        return "none"
    if isinstance(n, (int, float)):
        return "scalar"
    return "per-segment" if len(n) == nseg else "per-row"


def mech_of(r: dict, e: Exception) -> str | None:
    return None


def finalize(results: list[dict], tier: str, counters) -> dict:  # noqa: ANN001
    inc = []
    for k in ("views_read", "norm:per-row", "norm:per-segment", "norm:scalar", "Nv_vs_rhs_rows"):
        if not counters.get(k):
            inc.append(f"monitor '{k}' never evaluated")
    return {"inconclusive": inc, "evaluations": int(counters.get("views_read", 0))}
