"""C04 — continued simulation: absolute increasing time axis, piecewise-exact states.

History checker: random sequences of Simulator operations on linear networks;
the accumulated result is compared after every operation with a sequential
specification (time reached, state, parameters in force) and the closed-form
solution expm([[A,b],[0,0]] dt) — independent of solve_ivp.
"""

from __future__ import annotations

import os

from mon import core, simhist
from mon import refmodel as rm
from mon.linmodel import gen_linnet

LEVEL = "exploration"
RULE = (
    "random histories of 2..8 Simulator operations {simulate, simulate_time_course, simulate_protocol(_time_course), "
    "update_parameter(s), scale_parameter, update_variable(s), simulate_to_steady_state, clear_results} on stable "
    "linear networks (2-3 variables, dyadic times k/8, legal / equal / earlier end times, time-point arrays starting "
    "below / at / above the time reached); non-trivial = some continued segment is sensitive (>100x tolerance) to "
    "restarting from y0, to stale parameters or to a dropped time offset; distinct = history hash"
)
ASSUMPTIONS = [
    "closed form via scipy.linalg.expm; tolerance 1e-4*scale+1e-6 against integrator rtol=atol=1e-8",
    "the time reported for a steady-state row is left free (only monotonicity is demanded); after clear_results the run restarts at t=0 from Simulator.y0 as read from the public attribute",
]
N = {"quick": 800, "thorough": 150000}
MIN_NONTRIVIAL = {"quick": 60, "thorough": 1000}


def gen_cases(tier: str, seed: int) -> list[dict]:
    n = max(4, int(N[tier] * float(os.environ.get("VERIF_SCALE", "1"))))
    return [{"seed": f"{seed}:C04:{i}"} for i in range(n)]


def dy(rng, lo: float, hi: float) -> float:  # noqa: ANN001
    return rng.randint(int(lo * 8), int(hi * 8)) / 8.0


def gen_op(rng, net, spec, tiny: bool = False) -> dict:  # noqa: ANN001
    t = spec.t_reached
    r = rng.random()
    pnames = list(net.params)
    if tiny:
        # far out on the time axis, segments much shorter than the time reached (k/256 at t ~ 1000):
        # bookkeeping that compares times with a relative tolerance or loses resolution shows here
        if t < 500:
            return {"op": "simulate", "t_end": float(rng.choice([512, 1024, 2048])), "steps": 2}
        if r < 0.45:
            return {"op": "simulate", "t_end": t + rng.randint(1, 8) / 256.0, "steps": rng.randint(1, 4)}
        if r < 0.6:
            return {"op": "simulate_tc", "points": [t + i / 256.0 for i in range(1, rng.randint(2, 5))]}
        if r < 0.85:
            return {"op": "update_variable", "name": rng.choice(net.variables), "value": dy(rng, 0.0, 4.0)}
        if r < 0.9:
            return {"op": "read_views"}
        return {"op": "update_parameter", "name": rng.choice(pnames), "value": dy(rng, 0.25, 2.5)}
    if r < 0.28:
        mode = rng.random()
        if mode < 0.75:
            t_end = t + dy(rng, 0.25, 3.0)
        elif mode < 0.88:
            t_end = t
        else:
            t_end = max(0.0, t - dy(rng, 0.125, 1.0))
        d = {"op": "simulate", "t_end": t_end}
        if rng.random() < 0.6:
            d["steps"] = rng.randint(1, 12)
        return d
    if r < 0.46:
        mode = rng.random()
        n = rng.randint(1, 6)
        if mode < 0.5:
            start = t + dy(rng, 0.125, 1.0)  # above the time reached
        elif mode < 0.7:
            start = t  # at
        elif mode < 0.9:
            start = max(0.0, t - dy(rng, 0.125, 1.5))  # below: overlapping points
        else:  # everything at or below: illegal
            pts = sorted({max(0.0, t - dy(rng, 0.0, 1.0)) for _ in range(n)})
            return {"op": "simulate_tc", "points": pts}
        pts = [start]
        for _ in range(n - 1):
            pts.append(pts[-1] + dy(rng, 0.125, 1.0))
        return {"op": "simulate_tc", "points": pts}
    if r < 0.56:
        return {"op": "update_parameter", "name": rng.choice(pnames), "value": dy(rng, 0.25, 2.5)}
    if r < 0.60:
        return {"op": "update_parameters", "values": {p: dy(rng, 0.25, 2.5) for p in rng.sample(pnames, min(2, len(pnames)))}}
    if r < 0.65:
        if rng.random() < 0.5:
            return {"op": "scale_parameters", "factors": {p: rng.choice([0.5, 2.0, 1.5]) for p in rng.sample(pnames, min(2, len(pnames)))}}
        return {"op": "scale_parameter", "name": rng.choice(pnames), "factor": rng.choice([0.5, 2.0, 1.5])}
    if r < 0.76:
        return {"op": "update_variable", "name": rng.choice(net.variables), "value": dy(rng, 0.0, 4.0)}
    if r < 0.80:
        return {"op": "update_variables", "values": {v: dy(rng, 0.0, 4.0) for v in net.variables}}
    if r < 0.84:
        return {"op": "steady"}
    if r < 0.88:
        return {"op": "read_views"}
    if r < 0.91:
        return {"op": "clear"}
    pp = rng.sample(pnames, rng.randint(1, min(3, len(pnames))))  # a protocol names the same parameters in every step
    steps = [(dy(rng, 0.25, 1.5), {p: dy(rng, 0.25, 2.5) for p in rng.sample(pp, len(pp))}) for _ in range(rng.randint(1, 3))]
    if r < 0.93:
        return {"op": "protocol", "steps": steps, "n": rng.randint(1, 6)}
    total = sum(d for d, _ in steps)
    rel = rng.random() < 0.6
    base = 0.0 if rel else t
    pts = sorted({base + dy(rng, 0.125, total + 0.5) for _ in range(rng.randint(1, 5))})
    return {"op": "protocol_tc", "steps": steps, "points": pts, "relative": rel}


def run_case(case: dict) -> dict:
    from mxlpy import Simulator

    rng = core.rng_for(case["seed"])
    net = gen_linnet(rng)
    model = rm.build(net.spec())
    use_y0 = rng.random() < 0.3
    y0 = {v: dy(rng, 0.0, 3.0) for v in net.variables} if use_y0 else None
    y0_keys_permuted = False
    if y0 is not None and len(y0) > 1 and rng.random() < 0.6:
        # a start state is a mapping: its key order is the caller's, not the model's (own draw: the case's other draws stay as they were)
        keys = list(y0)
        r2 = core.rng_for(case["seed"] + ":y0order")
        while keys == list(y0):
            r2.shuffle(keys)
        y0 = {k: y0[k] for k in keys}
        y0_keys_permuted = True
    sim = Simulator(model, y0=y0)
    spec = simhist.Spec(net, y0 if y0 is not None else net.y0)
    history: list[dict] = []
    viols: list[dict] = []
    counters: dict[str, int] = {"ops": 0, "segments_checked": 0}
    if y0_keys_permuted:
        counters["y0 given in another key order than the model's variables"] = 1
    tiny = rng.random() < 0.2
    counters["mode:tiny_segments_at_large_time"] = int(tiny)
    repeat: list[dict] = []
    # in 40 % of the histories nothing is read until the end (reading a result in between re-applies parameters to the model)
    read_only_at_end = rng.random() < 0.4
    counters["mode:result_read_only_at_the_end"] = int(read_only_at_end)
    n_ops = rng.randint(2, 8) + (3 if tiny else 0)
    for i_op in range(n_ops):
        op = repeat.pop() if repeat else gen_op(rng, net, spec, tiny)
        if op["op"] in ("protocol_tc", "simulate_tc") and op.get("relative", op["op"] == "protocol_tc") and not op.get("again") and rng.random() < 0.6:
            # a cycle that is run again: the very same (relative) grid object and protocol for the next stretch
            repeat.append(dict(op, again=True))
            counters["cycles_repeated_with_the_same_grid_object"] = counters.get("cycles_repeated_with_the_same_grid_object", 0) + 1
        history.append(op)
        counters["ops"] += 1
        counters[f"op:{op['op']}"] = counters.get(f"op:{op['op']}", 0) + 1
        v, stop = simhist.execute(sim, spec, op)
        v = [x for x in v if not x.get("benign")]
        if not stop and (not read_only_at_end or i_op == n_ops - 1 or op["op"] == "read_views"):
            v += simhist.verify(spec, sim)
            counters["segments_checked"] += len(spec.segments)
        for x in v:
            viols.append(core.viol(x.pop("what"), mechanism(x, history), net=net.to_json(), y0=y0, history=list(history), **x))
        if stop or v:
            break
    for k, n in spec.sensitive.items():
        counters[f"sensitive:{k}"] = n
    nt = any(spec.sensitive.values())
    return core.result(sig=core.sha(history), nontrivial=nt, violations=viols[:4], counters=counters,
                       sample={"net": net.to_json(), "history": history} if case.get("idx", 0) < 2 else None)


def mechanism(x: dict, history: list[dict]) -> str | None:
    return None


def finalize(results: list[dict], tier: str, counters) -> dict:  # noqa: ANN001
    inc = []
    if not counters.get("segments_checked"):
        inc.append("no result segment was ever checked")
    return {"inconclusive": inc, "evaluations": int(counters.get("ops", 0)),
            "operation_coverage": {k[3:]: v for k, v in counters.items() if k.startswith("op:")}}
