"""C16 — linear label model tracks the isotopomer model's positional enrichment.

Oracle: the full isotopomer model built by LabelMapper (itself checked by C05)
and the documented reading of a map (product position i <- source position
map[i]).  Base networks are steady by construction (pools and balanced fluxes
chosen first, k = v / prod(pools)).
"""

from __future__ import annotations

import itertools
import os

import pandas as pd

from mon import core
from mon import refmodel as rm
from mon.fnlib import basic as fl

LEVEL = "exploration"
RULE = (
    "base mass-action networks steady by construction (chain, branch, A+B->C merge, A->B+C split, cycle with efflux) "
    "x label counts 1..3 x bijective atom maps over substrate+external positions (identity, reversal, rotations, "
    "random permutations) x 4 random isotopomer distributions consistent with the pool sizes; plus stationarity of "
    "uniform enrichment = EXT for EXT in {0, 0.3, 1} and absence of label without source. non-trivial = some map is "
    "not its own inverse; distinct = network hash"
)
ASSUMPTIONS = [
    "LabelMapper (checked by C05) is the oracle; documented map direction from docs/label-models.ipynb",
    "maps are bijections on positions (an atom goes to exactly one place)",
]
N = {"quick": 300, "thorough": 60000}
MIN_NONTRIVIAL = {"quick": 60, "thorough": 1200}


def gen_cases(tier: str, seed: int) -> list[dict]:
    n = max(4, int(N[tier] * float(os.environ.get("VERIF_SCALE", "1"))))
    return [{"seed": f"{seed}:C16:{i}"} for i in range(n)]


def gen_network(rng) -> dict:  # noqa: ANN001
    topo = rng.choice(["chain", "branch", "merge", "split", "cycle", "dimer", "cleavage", "split3", "merge3", "double", "double_efflux", "double_influx", "dimer_merge", "dimer_merge"])
    v = round(rng.uniform(0.5, 2.0), 3)
    v2 = round(rng.uniform(0.3, 1.5), 3)
    if topo == "chain":
        names = ["A", "B"]
        rx = [("vin", {"A": 1}, v), ("v1", {"A": -1, "B": 1}, v), ("vout", {"B": -1}, v)]
    elif topo == "branch":
        names = ["A", "B", "C"]
        rx = [("vin", {"A": 1}, v + v2), ("v1", {"A": -1, "B": 1}, v), ("v2", {"A": -1, "C": 1}, v2), ("vb", {"B": -1}, v), ("vc", {"C": -1}, v2)]
    elif topo == "merge":
        names = ["A", "B", "C"]
        rx = [("vina", {"A": 1}, v), ("vinb", {"B": 1}, v), ("v1", {"A": -1, "B": -1, "C": 1}, v), ("vout", {"C": -1}, v)]
    elif topo == "split":
        names = ["A", "B", "C"]
        rx = [("vin", {"A": 1}, v), ("v1", {"A": -1, "B": 1, "C": 1}, v), ("vb", {"B": -1}, v), ("vc", {"C": -1}, v)]
    elif topo == "split3":
        # three molecules on the product side
        names = ["X", "A", "B", "D"]
        rx = [("vin", {"X": 1}, v), ("v1", {"X": -1, "A": 1, "B": 1, "D": 1}, v), ("va", {"A": -1}, v), ("vb", {"B": -1}, v), ("vd", {"D": -1}, v)]
    elif topo == "merge3":
        names = ["A", "B", "D", "C"]
        rx = [("vina", {"A": 1}, v), ("vinb", {"B": 1}, v), ("vind", {"D": 1}, v), ("v1", {"A": -1, "B": -1, "D": -1, "C": 1}, v), ("vout", {"C": -1}, v)]
    elif topo == "dimer_merge":
        # a compound that takes part twice next to another substrate (its occurrences among the rate's arguments need not be
        # adjacent, nor come first)
        names = ["A", "B", "C"]
        rx = [("vina", {"A": 1}, 2 * v), ("vinb", {"B": 1}, v), ("v1", {"A": -2, "B": -1, "C": 1}, v), ("vout", {"C": -1}, v)]
    elif topo == "dimer":
        names = ["A", "B"]
        rx = [("vin", {"A": 1}, 2 * v), ("v1", {"A": -2, "B": 1}, v), ("vout", {"B": -1}, v)]
    elif topo == "double":
        # two molecules on both sides: every position-to-position transfer of the reaction occurs twice
        names = ["A", "B"]
        rx = [("vin", {"A": 1}, 2 * v), ("v1", {"A": -2, "B": 2}, v), ("vout", {"B": -1}, 2 * v)]
    elif topo == "double_efflux":
        names = ["A", "B"]
        rx = [("vin", {"A": 1}, 2 * v + v2), ("v1", {"A": -1, "B": 1}, v2), ("vout2", {"A": -2}, v), ("vout", {"B": -1}, v2)]
    elif topo == "double_influx":
        names = ["A", "B"]
        rx = [("vin2", {"A": 2}, v), ("v1", {"A": -1, "B": 1}, 2 * v), ("vout", {"B": -1}, 2 * v)]
    elif topo == "cleavage":
        names = ["B", "A"]
        rx = [("vin", {"B": 1}, v), ("v1", {"B": -1, "A": 2}, v), ("vout", {"A": -1}, 2 * v)]
    else:
        names = ["A", "B"]
        rx = [("vin", {"A": 1}, v), ("vf", {"A": -1, "B": 1}, v + v2), ("vr", {"B": -1, "A": 1}, v2), ("vout", {"B": -1}, v)]
    # declaration order is free: reactions in any order, and the compounds of one reaction in any order (a map's positions
    # follow the reaction's own order of substrates and products, not the order in which compounds first appear in the model)
    order_free = rng.random() < 0.6
    if order_free:
        rx = [(n, dict(rng.sample(list(st.items()), len(st))), f) for n, st, f in rng.sample(rx, len(rx))]
        rng.shuffle(names)
    # the same network in other units: fluxes and pool sizes of 1e-9 (nano-units) or 1e+3; enrichment rates (flux / pool) stay O(1)
    unit = rng.choice([1.0, 1.0, 1.0, 1e-9, 1e-6, 1e3])
    rx = [(n, st, f * unit) for n, st, f in rx]
    labels = {c: rng.randint(1, 3) for c in names}
    if topo == "double":
        labels["B"] = labels["A"]
    if topo in ("dimer", "cleavage"):
        labels["A"] = rng.randint(1, 2)
        labels["B"] = 2 * labels["A"]
    if topo == "dimer_merge":
        labels = {"A": 1, "B": rng.randint(1, 2)}
        labels["C"] = 2 * labels["A"] + labels["B"] if rng.random() < 0.7 else rng.randint(1, 3)
    if topo == "merge":
        labels["C"] = labels["A"] + labels["B"] if rng.random() < 0.7 else rng.randint(1, 3)
    if topo == "split3":
        labels = {"A": rng.randint(1, 2), "B": rng.randint(1, 2), "D": 1}
        labels["X"] = labels["A"] + labels["B"] + labels["D"] if rng.random() < 0.7 else rng.randint(2, 4)
    if topo == "merge3":
        labels = {"A": rng.randint(1, 2), "B": 1, "D": 1}
        labels["C"] = labels["A"] + 2 if rng.random() < 0.7 else rng.randint(2, 4)
    if topo == "split" and rng.random() < 0.7:
        labels["A"] = min(4, labels["B"] + labels["C"])
    pools = {c: round(rng.uniform(0.5, 3.0), 3) * unit for c in names}
    comps: list[dict] = []
    maps = {}
    fluxes = {}
    noninv = False
    for name, st, flux in rx:
        subs = [c for c, n in st.items() if n < 0 for _ in range(-n)]
        if len(set(subs)) > 1 and rng.random() < 0.6:
            rng.shuffle(subs)  # (mass action: the order of the substrates among the rate's arguments is free)
        k = flux
        for s in subs:
            k /= pools[s]
        comps.append({"kind": "parameter", "name": f"k_{name}", "value": k})
        fn = [fl.ma0, fl.ma1, fl.ma2, fl.ma3][len(subs)]
        comps.append({"kind": "reaction", "name": name, "fn": fl.ref(fn), "args": [f"k_{name}", *subs], "stoich": st})
        S = sum(labels[c] for c in subs)
        P = sum(labels[c] * n for c, n in st.items() if n > 0)
        L = max(S, P)
        base = list(range(L))
        mk = rng.choice(["identity", "reverse", "rotate", "perm", "perm"])
        if mk == "identity":
            m = base
        elif mk == "reverse":
            m = base[::-1]
        elif mk == "rotate" and L > 1:
            r = rng.randint(1, L - 1)
            m = base[r:] + base[:r]
        else:
            m = base[:]
            rng.shuffle(m)
        maps[name] = m
        fluxes[name] = flux
        if any(m[m[i]] != i for i in range(L)):
            noninv = True
    for c in names:
        comps.append({"kind": "variable", "name": c, "value": pools[c]})
    return {"topo": topo, "spec": {"components": comps}, "labels": labels, "maps": maps, "pools": pools, "fluxes": fluxes, "names": names, "noninvolutive": noninv, "declaration_order_shuffled": order_free, "unit": unit}


def invert(m: list[int]) -> list[int]:
    inv = [0] * len(m)
    for i, j in enumerate(m):
        inv[j] = i
    return inv


def iso_names(c: str, n: int) -> list[str]:
    return [f"{c}__{''.join(b)}" for b in itertools.product("01", repeat=n)]


def compare(net: dict, iso_model, lin_model, rng, n_states: int = 4) -> dict | None:  # noqa: ANN001
    labels, pools = net["labels"], net["pools"]
    for _ in range(n_states):
        st = {}
        enr = {}
        for c in net["names"]:
            isos = iso_names(c, labels[c])
            w = [rng.random() ** 2 + 0.01 for _ in isos]
            tot = sum(w)
            for i, wi in zip(isos, w):
                st[i] = pools[c] * wi / tot
            for p in range(labels[c]):
                enr[f"{c}__{p}"] = sum(st[i] for i in isos if i.split("__")[1][p] == "1") / pools[c]
        d_iso = iso_model.get_right_hand_side(st, 0.0)
        d_lin = lin_model.get_right_hand_side(enr, 0.0)
        for c in net["names"]:
            isos = iso_names(c, labels[c])
            for p in range(labels[c]):
                de = sum(float(d_iso[i]) for i in isos if i.split("__")[1][p] == "1") / pools[c]
                got = float(d_lin[f"{c}__{p}"])
                if not core.close(got, de, 1e-9, 1e-12):
                    return {"position": f"{c}__{p}", "linear": got, "isotopomer": de, "enrichment": enr}
    return None


def run_case(case: dict) -> dict:
    from mxlpy import LabelMapper, LinearLabelMapper

    rng = core.rng_for(case["seed"])
    net = gen_network(rng)
    base = rm.build(net["spec"])
    viols: list[dict] = []
    counters = {f"topo:{net["topo"]}": 1, "noninvolutive": int(net["noninvolutive"]), "declaration_order_shuffled": int(net["declaration_order_shuffled"]), "fluxes_and_pools_in_other_units": int(net["unit"] != 1.0)}
    ctx = {"topology": net["topo"], "labels": net["labels"], "maps": net["maps"], "pools": net["pools"], "fluxes": net["fluxes"]}
    # sanity: the base model is at a metabolic steady state (harness construction)
    rhs0 = base.get_right_hand_side(net["pools"], 0.0)
    if max(abs(float(x)) for x in rhs0) > 1e-9:
        raise AssertionError("harness: base network is not steady")
    concs, fluxes = pd.Series(net["pools"]), pd.Series(net["fluxes"])
    if rng.random() < 0.4:
        # the whole steady-state argument table is handed over as `concs`, and the base model has a quantity of its own that
        # is called EXT (a clamped medium pool): the enrichment of the external label pool is still the `external_label` given
        base.add_parameter("EXT", 0.37)
        concs = pd.Series({**net["pools"], **{k: float(v) for k, v in base.get_parameter_values().items()}})
        counters["steady_state_table_with_a_quantity_called_EXT"] = 1
    iso_model = LabelMapper(base, label_variables=dict(net["labels"]), label_maps={k: list(v) for k, v in net["maps"].items()}).build_model()
    lin = LinearLabelMapper(base, label_variables=dict(net["labels"]), label_maps={k: list(v) for k, v in net["maps"].items()})
    lin_model = lin.build_model(concs=concs, fluxes=fluxes, external_label=1.0)
    state_rng = core.rng_for(case["seed"], "states")
    bad = compare(net, iso_model, lin_model, state_rng)
    counters["enrichment_states_compared"] = 4
    if bad is not None:
        # attribution: twin with the inverse permutation handed to the linear mapper only
        twin = LinearLabelMapper(base, label_variables=dict(net["labels"]), label_maps={k: invert(v) for k, v in net["maps"].items()})
        twin_model = twin.build_model(concs=concs, fluxes=fluxes, external_label=1.0)
        twin_bad = compare(net, iso_model, twin_model, core.rng_for(case["seed"], "states"))
        mech = "C16-linear-map-direction" if twin_bad is None and net["noninvolutive"] else None
        counters["twin_inverse_map_agrees"] = int(twin_bad is None)
        viols.append(core.viol("linear label model's rate of change differs from the isotopomer model's positional enrichment", mech, **bad, **ctx,
                               twin="linear mapper with inverse maps agrees" if twin_bad is None else f"twin still differs: {twin_bad}"))
    # one mapper object used for two builds: first with other maps, then, after its maps were replaced through the public
    # field (assigned or edited in place), with the maps of this case; the second build must be the model a fresh mapper builds
    if net["maps"] and rng.random() < 0.5:
        other = {}
        for k, v in net["maps"].items():
            w = list(v)
            rng.shuffle(w)
            other[k] = w
        reused = LinearLabelMapper(base, label_variables=dict(net["labels"]), label_maps=other)
        try:
            reused.build_model(concs=concs, fluxes=fluxes, external_label=0.5)
            for k, v in net["maps"].items():
                if rng.random() < 0.5:
                    reused.label_maps[k] = list(v)
                else:
                    reused.label_maps[k][:] = list(v)
            m2 = reused.build_model(concs=concs, fluxes=fluxes, external_label=1.0)
            names = lin_model.get_variable_names()
            if sorted(m2.get_variable_names()) != sorted(names):
                viols.append(core.viol("second build of one mapper (maps replaced in between) has other variables than a fresh mapper's build", None, got=sorted(m2.get_variable_names()), expected=sorted(names), **ctx))
            else:
                for _ in range(3):
                    e = {v: round(rng.uniform(0.0, 1.0), 4) for v in names}
                    d1, d2 = lin_model.get_right_hand_side(e, 0.0), m2.get_right_hand_side(e, 0.0)
                    worst = max(names, key=lambda v: abs(float(d1[v]) - float(d2[v])))
                    if not core.close(float(d2[worst]), float(d1[worst]), 1e-9, 1e-12):
                        viols.append(core.viol("second build of one mapper (maps replaced in between) differs from a fresh mapper's build", None, position=worst, fresh=float(d1[worst]), reused=float(d2[worst]),
                                               first_maps=other, **ctx))
                        break
            counters["mapper_reused_for_a_second_build_after_its_maps_were_replaced"] = 1
        except Exception:  # noqa: BLE001
            import traceback

            viols.append(core.viol("second build of one mapper (maps replaced in between) raised", None, error=traceback.format_exc()[-500:], first_maps=other, **ctx))
    # stationarity of uniform enrichment = EXT, and no label without source
    for ext in (0.0, 0.3, 1.0):
        m = lin.build_model(concs=concs, fluxes=fluxes, external_label=ext)
        e = {v: ext for v in m.get_variable_names()}
        d = m.get_right_hand_side(e, 0.0)
        if max(abs(float(x)) for x in d) > 1e-9:
            viols.append(core.viol("uniform enrichment equal to the external pool is not stationary", None, external=ext, derivative=d.to_dict(), **ctx))
        if ext == 0.0:
            ic = m.get_initial_conditions()
            if any(v != 0 for v in ic.values()):
                viols.append(core.viol("label present initially although none was requested", None, initial=ic, **ctx))
        counters["stationarity_checks"] = counters.get("stationarity_checks", 0) + 1
    return core.result(sig=core.sha([net["spec"], net["labels"], net["maps"]]), nontrivial=net["noninvolutive"], violations=viols[:3], counters=counters,
                       sample=ctx if case.get("idx", 0) < 2 else None)


def finalize(results: list[dict], tier: str, counters) -> dict:  # noqa: ANN001
    inc = []
    for k in ("enrichment_states_compared", "stationarity_checks", "noninvolutive"):
        if not counters.get(k):
            inc.append(f"monitor '{k}' never evaluated")
    return {"inconclusive": inc}
