"""C05 — isotopomer expansion preserves base structure, totals and dynamics.

Oracle: an independent expansion written from the statement (enumerate substrate
patterns, append 1s for external positions, product position i <- source
position map[i], split per product) + the dynamics identity evaluated
numerically at random isotopomer states.
"""

from __future__ import annotations

import copy
import itertools
import os

from mon import core
from mon import refmodel as rm
from mon.fnlib import basic as fl

LEVEL = "exploration"
RULE = (
    "base mass-action networks (influx, efflux, A->B, A+B->C, A->B+C, A+B->C+D, 2A->B, unlabelled bystanders and "
    "modifiers, derived quantities on totals, unmapped reactions on unlabelled species) x label counts 0..3 x maps "
    "(identity, reversal, rotations and other non-involutive permutations, merges/duplicated sources, splits, external "
    "positions, loss) x initial_labels (absent/int/list) x random isotopomer states; also maps shorter than the "
    "substrate atoms (must raise ValueError). non-trivial = some map is not its own inverse or duplicates/drops a "
    "source position, or a reaction is bimolecular; distinct = network hash"
)
ASSUMPTIONS = ["reference expansion in this file (40 lines, from the statement)", "mapped reactions are irreversible mass action; labelled species never act as pure modifiers of mapped reactions"]
N = {"quick": 400, "thorough": 150000}
MIN_NONTRIVIAL = {"quick": 100, "thorough": 2000}


def gen_cases(tier: str, seed: int) -> list[dict]:
    n = max(4, int(N[tier] * float(os.environ.get("VERIF_SCALE", "1"))))
    return [{"seed": f"{seed}:C05:{i}"} for i in range(n)]


def iso_names(c: str, n: int) -> list[str]:
    return [c] if n == 0 else [f"{c}__{''.join(b)}" for b in itertools.product("01", repeat=n)]


def ref_expand(stoich: dict[str, int], labels: dict[str, int], lmap: list[int]) -> list[dict[str, int]]:
    """All isotopomer reactions (stoichiometries) of one mapped reaction, from the statement."""
    subs, prods = [], []
    for k, v in stoich.items():
        (subs if v < 0 else prods).extend([k] * abs(v))
    ns = [labels.get(s, 0) for s in subs]
    np_ = [labels.get(p, 0) for p in prods]
    S, P = sum(ns), sum(np_)
    out = []
    for pat in itertools.product("01", repeat=S):
        source = "".join(pat) + "1" * max(0, P - S)
        prod_string = "".join(source[lmap[i]] for i in range(P))
        st: dict[str, int] = {}
        pos = 0
        for s, n in zip(subs, ns):
            name = s if n == 0 else f"{s}__{source[pos:pos + n]}"
            st[name] = st.get(name, 0) - 1
            pos += n
        pos = 0
        for p, n in zip(prods, np_):
            name = p if n == 0 else f"{p}__{prod_string[pos:pos + n]}"
            st[name] = st.get(name, 0) + 1
            pos += n
        out.append(st)
    return out


def gen_network(rng) -> dict:  # noqa: ANN001
    ncomp = rng.randint(2, 4)
    names = ["A", "B", "C", "D"][:ncomp]
    labels = {c: rng.choice([0, 1, 1, 2, 2, 3]) for c in names}
    if all(v == 0 for v in labels.values()):
        labels[names[0]] = 2
    if rng.random() < 0.5:
        names.append("U")  # unlabelled bystander
        labels["U"] = 0
    comps: list[dict] = []
    params = {}
    for i in range(8):
        params[f"k{i}"] = round(rng.uniform(0.3, 2.0), 3)
    for k, v in params.items():
        comps.append({"kind": "parameter", "name": k, "value": v})
    y0 = {c: round(rng.uniform(0.2, 3.0), 3) for c in names}
    for c in names:
        comps.append({"kind": "variable", "name": c, "value": y0[c]})
    rxns = []
    maps: dict[str, list[int]] = {}
    feats = set()
    nr = rng.randint(1, 4)
    for j in range(nr):
        kind = rng.choice(["influx", "efflux", "uni", "uni", "bi", "split", "bibi", "homodimer", "bystander", "cofactor_first", "three_products", "three_substrates"])
        k = f"k{j}"
        lab = [c for c in names if c != "U"]
        if kind == "influx":
            p = rng.choice(lab)
            st, fn, args = {p: 1}, fl.ma0, [k]
        elif kind == "efflux":
            s = rng.choice(lab)
            st, fn, args = {s: -1}, fl.ma1, [k, s]
        elif kind == "uni" or len(lab) < 3 and kind in ("bi", "split", "bibi"):
            s, p = rng.sample(lab, 2)
            st, fn, args = {s: -1, p: 1}, fl.ma1, [k, s]
            kind = "uni"
        elif kind == "bi":
            s1, s2, p = rng.sample(lab, 3)
            st, fn, args = {s1: -1, s2: -1, p: 1}, fl.ma2, [k, s1, s2]
        elif kind == "split":
            s, p1, p2 = rng.sample(lab, 3)
            st, fn, args = {s: -1, p1: 1, p2: 1}, fl.ma1, [k, s]
        elif kind == "bibi":
            if len(lab) < 4:
                s1, s2, p = rng.sample(lab, 3)
                st, fn, args = {s1: -1, s2: -1, p: 1}, fl.ma2, [k, s1, s2]
                kind = "bi"
            else:
                s1, s2, p1, p2 = rng.sample(lab, 4)
                st, fn, args = {s1: -1, p1: 1, s2: -1, p2: 1}, fl.ma2, [k, s1, s2]
        elif kind == "cofactor_first" and "U" in names:
            # an unlabelled cofactor listed first in the stoichiometry (consumed, and possibly regenerated as product) that
            # the rate law does not name: the rate's arguments are not a prefix of the stoichiometric order
            s, p = rng.sample(lab, 2)
            st = {"U": -1, s: -1, p: 1} if rng.random() < 0.5 else {"U": -1, s: -1, p: 1, "U2": 1}
            if "U2" in st:
                if "U2" not in names:
                    names.append("U2")
                    labels["U2"] = 0
                    y0["U2"] = round(rng.uniform(0.2, 3.0), 3)
                    comps.append({"kind": "variable", "name": "U2", "value": y0["U2"]})
            fn, args = fl.ma1, [k, s]
        elif kind == "three_products" and len(lab) >= 3:
            # three molecules on the product side (counting multiplicity): A -> B + 2 C, or A -> B + C + D
            if len(lab) >= 4 and rng.random() < 0.5:
                s, p1, p2, p3 = rng.sample(lab, 4)
                st = {s: -1, p1: 1, p2: 1, p3: 1}
            else:
                s, p1, p2 = rng.sample(lab, 3)
                st = {s: -1, p1: 1, p2: 2}
            fn, args = fl.ma1, [k, s]
        elif kind == "three_substrates" and len(lab) >= 3:
            s1, s2, p = rng.sample(lab, 3)
            st, fn, args = {s1: -1, s2: -2, p: 1}, fl.ma3, [k, s1, s2, s2]
        elif kind == "homodimer":
            s, p = rng.sample(lab, 2)
            st, fn, args = {s: -2, p: 1}, fl.ma2, [k, s, s]
        else:  # unlabelled bystander in the stoichiometry / as modifier
            s, p = rng.sample(lab, 2)
            if "U" in names and rng.random() < 0.5:
                st, fn, args = {s: -1, "U": -1, p: 1}, fl.ma2, [k, s, "U"]
            elif "U" in names:
                st, fn, args = {s: -1, p: 1}, fl.ma1mod, [k, s, "U"]
            else:
                st, fn, args = {s: -1, p: 1}, fl.ma1, [k, s]
        feats.add(kind)
        name = f"v{j}"
        subs = [c for c, v in st.items() if v < 0 for _ in range(-v)]
        prods = [c for c, v in st.items() if v > 0 for _ in range(v)]
        S = sum(labels[c] for c in subs)
        P = sum(labels[c] for c in prods)
        if S > 5:
            continue
        if S == 0 and P == 0:
            pass  # purely unlabelled: stays unmapped
        else:
            L = max(S, P)
            src = max(S, P) if P > S else S  # source length = S + external
            mk = rng.choice(["identity", "reverse", "rotate", "random_perm", "dup", "random"])
            base = list(range(src))
            if mk == "identity":
                m = base[:]
            elif mk == "reverse":
                m = base[::-1]
            elif mk == "rotate":
                r = rng.randint(1, max(1, src - 1))
                m = base[r:] + base[:r]
            elif mk == "random_perm":
                m = base[:]
                rng.shuffle(m)
            elif mk == "dup":
                m = [rng.choice(base) for _ in base] if base else []
            else:
                m = [rng.randrange(src) for _ in range(L)] if src else []
            m = (m + [rng.randrange(src) for _ in range(L)])[:L] if src else []
            maps[name] = m
            inv_ok = len(set(m)) == len(m) == src and all(m[m[i]] == i for i in range(len(m)))
            if not inv_ok and len(m) > 1:
                feats.add("noninvolutive")
        rxns.append({"kind": "reaction", "name": name, "fn": fl.ref(fn), "args": args, "stoich": st})
    if "U" in names and rng.random() < 0.5:
        # unmapped reaction on the unlabelled species, labelled species as modifier
        mod = rng.choice([c for c in names if c != "U"])
        rxns.append({"kind": "reaction", "name": "vu", "fn": fl.ref(fl.ma1mod), "args": ["k7", "U", mod], "stoich": {"U": -1}})
        rxns.append({"kind": "reaction", "name": "vuin", "fn": fl.ref(fl.ma0), "args": ["k6"], "stoich": {"U": 1}})
        feats.add("unmapped")
    comps.extend(rxns)
    if rng.random() < 0.5:
        a, b = rng.choice(names), rng.choice(names)
        comps.append({"kind": "derived", "name": "dtot", "fn": fl.ref(fl.tot2), "args": [a, b]})
        comps.append({"kind": "derived", "name": "dpar", "fn": fl.ref(fl.tot2), "args": ["k0", "k1"]})
        feats.add("derived")
    init = {}
    for c in names:
        if labels[c] > 0:
            r = rng.random()
            if r < 0.3:
                init[c] = rng.randrange(labels[c])
            elif r < 0.6:
                init[c] = sorted(rng.sample(range(labels[c]), rng.randint(0, labels[c])))
    # compounds without label positions are either left out of the table of labelled compounds or listed there with 0
    listed_with_zero = rng.random() < 0.5
    if listed_with_zero and any(n == 0 for n in labels.values()):
        feats.add("compound_listed_with_0_positions")
    net = {"spec": {"components": comps}, "labels": {c: n for c, n in labels.items() if n > 0 or listed_with_zero}, "maps": maps, "initial_labels": init,
           "features": sorted(feats), "names": names}
    if rng.random() < 0.25:
        # compound names that contain the separator of isotopomer names themselves (BiGG-style ids: glc__D, lac__L)
        import json

        ren = dict(zip(["A", "B", "C", "D", "E"], ["glc__D", "lac__L", "ala__L_c", "pyr__c", "mal__L"]))
        text = json.dumps(net)
        for old_, new_ in ren.items():
            text = text.replace(json.dumps(old_), json.dumps(new_))
        net = json.loads(text)
        net["labels"] = {k: int(v) for k, v in net["labels"].items()}
        net["features"] = sorted({*net["features"], "compound_names_containing_the_isotopomer_separator"})
    return net


def run_case(case: dict) -> dict:
    from mxlpy import LabelMapper

    rng = core.rng_for(case["seed"])
    net = gen_network(rng)
    spec, labels, maps, init = net["spec"], net["labels"], net["maps"], net["initial_labels"]
    base = rm.build(spec)
    viols: list[dict] = []
    counters: dict[str, int] = {"mapped_reactions": len(maps)}
    ctx = {"labels": labels, "maps": maps, "initial_labels": init, "spec": spec}
    # --- short map must be rejected ---------------------------------------
    if maps and rng.random() < 0.3:
        name = rng.choice(sorted(maps))
        st = [c for c in spec["components"] if c.get("name") == name][0]["stoich"]
        S = sum(labels.get(c, 0) * -v for c, v in st.items() if v < 0)
        if S > 0:
            short = dict(maps)
            short[name] = maps[name][: S - 1]
            counters["short_map_cases"] = 1
            try:
                LabelMapper(rm.build(spec), label_variables=dict(labels), label_maps=short).build_model()
                viols.append(core.viol("map shorter than the substrates' atoms was not rejected", None, reaction=name, short_map=short[name], **ctx))
            except ValueError:
                pass
            except Exception as e:  # noqa: BLE001
                viols.append(core.viol("map shorter than the substrates' atoms raised something other than ValueError", None, error=repr(e)[:200], **ctx))
    try:
        mapper = LabelMapper(base, label_variables=dict(labels), label_maps={k: list(v) for k, v in maps.items()})
        if labels and rng.random() < 0.5:
            # the caller looks the isotopomer names up first and uses the returned lists for purposes of its own
            # (reversed for a legend, unlabelled species dropped, emptied) — before this build and, in the same process, the next
            for nm, lst in mapper.get_isotopomers().items():
                if lst != iso_names(nm, labels[nm]):
                    viols.append(core.viol("get_isotopomers does not list the 2**n isotopomer names", None, compound=nm, got=lst[:8], **ctx))
                rng.choice([lst.reverse, lst.clear, lambda lst=lst: lst.pop(0)])()
            one = rng.choice(sorted(labels))
            lst = mapper.get_isotopomer_of(one)
            if lst != iso_names(one, labels[one]):
                viols.append(core.viol("get_isotopomer_of does not list the 2**n isotopomer names", None, compound=one, got=lst[:8], **ctx))
            rng.choice([lst.reverse, lst.clear, lambda lst=lst: lst.pop(0)])()
            counters["name_lists_looked_up_and_modified_by_the_caller_before_the_build"] = 1
        init_obj = copy.deepcopy(init)  # the caller's own specification object, handed to every build of this case
        lm = mapper.build_model(initial_labels=init_obj or None)
        if init_obj != init:
            viols.append(core.viol("build_model changed the label specification it was given", None, now=init_obj, **ctx))
    except Exception as e:  # noqa: BLE001
        import traceback

        return core.result(sig=core.sha(net), nontrivial=True, violations=[core.viol("build_model raised on a legal network", None, error=traceback.format_exc()[-600:], **ctx)], counters=counters)
    # --- one mapper object, two builds: other maps first, then (maps replaced through the public field) this case's ----------
    if maps and rng.random() < 0.3:
        other = {}
        for k, v in maps.items():
            w = list(v)
            rng.shuffle(w)
            other[k] = w
        try:
            reused = LabelMapper(rm.build(spec), label_variables=dict(labels), label_maps=other)
            reused.build_model()
            for k, v in maps.items():
                if rng.random() < 0.5:
                    reused.label_maps[k] = list(v)
                else:
                    reused.label_maps[k][:] = list(v)
            m2 = reused.build_model(initial_labels=init_obj or None)
            canon2 = lambda m: sorted(tuple(sorted((k, float(v)) for k, v in r.stoichiometry.items() if v != 0)) for r in m.get_raw_reactions().values())  # noqa: E731
            if canon2(m2) != canon2(lm) or m2.get_initial_conditions() != lm.get_initial_conditions():
                viols.append(core.viol("second build of one mapper (maps replaced in between) differs from a fresh mapper's build", None, first_maps=other, **ctx))
            counters["mapper_reused_for_a_second_build_after_its_maps_were_replaced"] = 1
        except Exception:  # noqa: BLE001
            import traceback

            viols.append(core.viol("second build of one mapper (maps replaced in between) raised", None, error=traceback.format_exc()[-500:], first_maps=other, **ctx))
    # --- structure -----------------------------------------------------------
    got_rx = lm.get_raw_reactions()
    exp_st: list[dict] = []
    unmapped = 0
    for c in spec["components"]:
        if c["kind"] != "reaction":
            continue
        if c["name"] in maps:
            exp_st.extend(ref_expand(c["stoich"], labels, maps[c["name"]]))
        else:
            exp_st.append(dict(c["stoich"]))
            unmapped += 1
    if len(got_rx) != len(exp_st):
        viols.append(core.viol("number of isotopomer reactions differs (one per substrate labelling pattern expected)", None, got=len(got_rx), expected=len(exp_st), **ctx))
    else:
        canon = lambda d: tuple(sorted((k, float(v)) for k, v in d.items() if v != 0))  # noqa: E731
        g = sorted(canon({k: v for k, v in r.stoichiometry.items()}) for r in got_rx.values())
        e = sorted(canon(d) for d in exp_st)
        if g != e:
            diff_g = [x for x in g if x not in e][:3]
            diff_e = [x for x in e if x not in g][:3]
            viols.append(core.viol("isotopomer reaction stoichiometries differ from the reference expansion", None, only_in_model=diff_g, only_in_reference=diff_e, **ctx))
    counters["isotopomer_reactions"] = len(got_rx)
    # --- initial totals and label placement ---------------------------------
    ic = lm.get_initial_conditions()
    base_ic = base.get_initial_conditions()
    for c in net["names"]:
        n = labels.get(c, 0)
        isos = iso_names(c, n)
        tot = sum(ic.get(i, float("nan")) for i in isos)
        if not core.close(tot, base_ic[c]):
            viols.append(core.viol("total initial amount not preserved", None, compound=c, got=tot, expected=base_ic[c], **ctx))
        if n > 0:
            lp = init.get(c)
            pos = [] if lp is None else [lp] if isinstance(lp, int) else lp
            want = f"{c}__" + "".join("1" if i in pos else "0" for i in range(n))
            if not core.close(ic.get(want, float("nan")), base_ic[c]):
                viols.append(core.viol("initial label not placed where requested", None, compound=c, wanted=want, got={k: ic[k] for k in isos}, **ctx))
    # --- dynamics identity ---------------------------------------------------
    var_names = lm.get_variable_names()
    for _ in range(4):
        st = {v: round(rng.uniform(0.05, 2.0), 4) for v in var_names}
        totals = {c: sum(st[i] for i in iso_names(c, labels.get(c, 0))) for c in net["names"]}
        try:
            d_iso = lm.get_right_hand_side(st, 0.0)
            d_base = base.get_right_hand_side(totals, 0.0)
        except Exception as e:  # noqa: BLE001
            viols.append(core.viol("labelled model could not be evaluated", None, error=repr(e)[:300], **ctx))
            break
        counters["states_evaluated"] = counters.get("states_evaluated", 0) + 1
        for c in net["names"]:
            s = sum(float(d_iso[i]) for i in iso_names(c, labels.get(c, 0)))
            if not core.close(s, float(d_base[c]), 1e-9):
                viols.append(core.viol("summed isotopomer derivatives differ from the base derivative at the totals", mech_dyn(net), compound=c, summed=s, base=float(d_base[c]), state=st, **ctx))
                break
        # derived quantities on totals
        if "derived" in net["features"]:
            a_l = lm.get_args(st, 0.0)
            a_b = base.get_args(totals, 0.0)
            for d in ("dtot", "dpar"):
                if not core.close(a_l[d], a_b[d]):
                    viols.append(core.viol("derived quantity on totals differs", None, name=d, got=float(a_l[d]), expected=float(a_b[d]), **ctx))
    seen = set()
    out = []
    for v in viols:
        if (v["what"], v["mechanism"]) not in seen:
            seen.add((v["what"], v["mechanism"]))
            out.append(v)
    for f in net["features"]:
        counters[f"feature:{f}"] = 1
    nt = bool({"noninvolutive", "bi", "bibi", "homodimer", "split"} & set(net["features"]))
    return core.result(sig=core.sha([spec, labels, maps, init]), nontrivial=nt, violations=out[:4], counters=counters,
                       sample={"labels": labels, "maps": maps, "initial_labels": init, "reactions": [c for c in spec["components"] if c["kind"] == "reaction"]} if case.get("idx", 0) < 2 else None)


def mech_dyn(net: dict) -> str | None:
    return None


def finalize(results: list[dict], tier: str, counters) -> dict:  # noqa: ANN001
    inc = []
    for k in ("states_evaluated", "short_map_cases", "isotopomer_reactions"):
        if not counters.get(k):
            inc.append(f"monitor '{k}' never evaluated")
    return {"inconclusive": inc}
