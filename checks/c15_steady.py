"""C15 — steady-state results are steady states; absence is reported as failure.

Oracle: numpy.linalg.solve on generated stable linear networks (analytic
y* = -A^-1 b) and a class of unambiguous no-steady-state networks (linear
growth, accumulation, exponential growth, undamped oscillators).
"""

from __future__ import annotations

import os

import numpy as np
import pandas as pd

from mon import core
from mon import refmodel as rm
from mon.fnlib import basic as fl
from mon.linmodel import LinNet, gen_linnet

LEVEL = "exploration"
RULE = (
    "stable linear networks (chains, branches, cycles with efflux; slowest relaxation rate >= 0.05) x default / "
    "user-supplied / zero initial values x tolerances 1e-4..1e-9 x absolute / relative norm through "
    "Simulator.simulate_to_steady_state and scan.steady_state; networks without a steady state: constant net influx, "
    "accumulation behind a chain, exponential growth, undamped oscillators (omega 0.5..50); in a third of the cases the "
    "search continues a successful time course on the same simulator. non-trivial = success "
    "reported and compared with the analytic state, or a no-steady-state network; distinct = case hash"
)
ASSUMPTIONS = [
    "success is compared with |y-y*| <= 10*tol + 1e-4*max(1,|y*|) (the code's own criterion bounds the distance by tol/(e^{100 lambda}-1); the spi.ode default rtol is 1e-6)",
    "failure is always acceptable for a network that has a steady state",
]
N = {"quick": 160, "thorough": 3000}
MIN_NONTRIVIAL = {"quick": 60, "thorough": 800}
CASE_TIMEOUT = 600


def gen_cases(tier: str, seed: int) -> list[dict]:
    n = max(6, int(N[tier] * float(os.environ.get("VERIF_SCALE", "1"))))
    kinds = ["stable"] * 5 + ["nosteady"] * 2 + ["scan"]
    return [{"seed": f"{seed}:C15:{i}", "kind": kinds[i % len(kinds)]} for i in range(n)]


def nosteady_net(rng) -> tuple[LinNet, str]:  # noqa: ANN001
    kind = rng.choice(["linear_growth", "accumulation", "exp_growth", "oscillator", "oscillator", "growing_oscillator"])
    if kind == "linear_growth":
        net = LinNet(["x0"], [{"name": "vin", "k": "k0", "sub": None, "stoich": {"x0": 1}}], {"k0": rng.choice([0.25, 1.0, 3.0])}, {"x0": 1.0})
    elif kind == "accumulation":
        net = LinNet(["x0", "x1"], [
            {"name": "vin", "k": "k0", "sub": None, "stoich": {"x0": 1}},
            {"name": "v0", "k": "k1", "sub": "x0", "stoich": {"x0": -1, "x1": 1}},
        ], {"k0": rng.choice([0.5, 1.0, 2.0]), "k1": rng.choice([0.5, 1.5])}, {"x0": 0.5, "x1": 0.0})
    elif kind == "exp_growth":
        net = LinNet(["x0"], [{"name": "vg", "k": "k0", "sub": "x0", "stoich": {"x0": 1}}], {"k0": rng.choice([0.125, 0.5, 1.0])}, {"x0": 1.0})
    elif kind == "oscillator":
        w = rng.choice([0.5, 1.0, 3.0, 10.0, 50.0])
        net = LinNet(["x0", "x1"], [
            {"name": "va", "k": "w", "sub": "x1", "stoich": {"x0": 1}},
            {"name": "vb", "k": "w", "sub": "x0", "stoich": {"x1": -1}},
        ], {"w": w}, {"x0": 1.0, "x1": 0.0})
    else:
        w = rng.choice([1.0, 5.0])
        net = LinNet(["x0", "x1"], [
            {"name": "va", "k": "w", "sub": "x1", "stoich": {"x0": 1}},
            {"name": "vb", "k": "w", "sub": "x0", "stoich": {"x1": -1}},
            {"name": "vg", "k": "g", "sub": "x0", "stoich": {"x0": 1}},
        ], {"w": w, "g": 0.05}, {"x0": 1.0, "x1": 0.0})
    return net, kind


def check_success(net: LinNet, params: dict, y: dict, fluxes: dict | None, tol: float, rel: bool) -> dict | None:
    ystar = net.steady(params)
    scale = max(1.0, max(abs(v) for v in ystar.values()))
    tol_eff = tol * (scale if rel else 1.0)
    bound = 10 * tol_eff + 1e-4 * scale
    dist = max(abs(y[k] - ystar[k]) for k in ystar)
    if not dist <= bound:
        return {"what": "reported steady state differs from the analytic steady state", "got": y, "expected": ystar, "distance": dist, "bound": bound}
    if fluxes is not None:
        A, _ = net.Ab(params)
        nv = {v: 0.0 for v in net.variables}
        for r in net.rxns:
            for v, c in r["stoich"].items():
                nv[v] += c * fluxes[r["name"]]
        fb = (np.abs(A).sum(axis=1).max()) * bound + 1e-9
        if max(abs(v) for v in nv.values()) > fb:
            return {"what": "reported fluxes do not balance at the reported steady state", "net_flux": nv, "bound": fb}
    return None


def run_case(case: dict) -> dict:
    from mxlpy import Simulator, scan

    rng = core.rng_for(case["seed"])
    viols: list[dict] = []
    counters: dict[str, int] = {}
    nontrivial = False
    sample = None
    if case["kind"] == "stable":
        net = gen_linnet(rng, n_max=4)
        model = rm.build(net.spec())
        mode = rng.choice(["default", "user", "zeros"])
        y0 = None if mode == "default" else {v: (0.0 if mode == "zeros" else round(rng.uniform(0, 4), 3)) for v in net.variables}
        tol = rng.choice([1e-4, 1e-6, 1e-8, 1e-9])
        rel = rng.random() < 0.4
        sim = Simulator(model, y0=y0)
        if rng.random() < 0.3:
            # the search continues an earlier time course (also one that ended on a round time like 100 or 200)
            sim.simulate(rng.choice([round(rng.uniform(0.25, 4.0), 3), 100.0, 200.0, 50.0]), steps=rng.randint(1, 4))
            counters["stable:after_a_time_course"] = 1
        sim.simulate_to_steady_state(tolerance=tol, rel_norm=rel)
        params_now = dict(net.params)
        first = None
        if rng.random() < 0.35 and not isinstance(sim.get_result().value, Exception):
            # a second search on the same simulator after a parameter change: the new steady state, not the old one
            first = sim.get_result().value  # ... and the segment found before the change stays what it was
            n_first = len(first.raw_variables)  # (the result object goes on collecting the simulator's later segments)
            kname = rng.choice(sorted(net.params))
            params_now[kname] = round(net.params[kname] * rng.choice([0.5, 2.0, 3.0]), 4)
            sim.update_parameter(kname, params_now[kname])
            sim.simulate_to_steady_state(tolerance=tol, rel_norm=rel)
            counters["stable:second_search_after_parameter_change"] = 1
        res = sim.get_result().value
        counters[f"y0:{mode}"] = 1
        counters[f"rel_norm:{rel}"] = 1
        if isinstance(res, Exception):
            counters["stable:reported_failure(acceptable)"] = 1
        else:
            nontrivial = True
            counters["stable:success_compared"] = 1
            try:
                y = res.get_variables(include_derived_variables=False, include_readouts=False, include_surrogate_variables=False).iloc[-1].to_dict()
                fx = res.fluxes.iloc[-1].to_dict()
                bad = check_success(net, params_now, y, fx, tol, rel)
            except Exception:  # noqa: BLE001
                import traceback

                bad = {"what": "the state and rates of a result reported as a successful steady state cannot be read", "error": traceback.format_exc()[-500:]}
            if bad:
                viols.append(core.viol(bad.pop("what"), None, net=net.to_json(), y0=y0, tolerance=tol, rel_norm=rel, parameters=params_now, **bad))
        r_near = core.rng_for(case["seed"] + ":near")
        if r_near.random() < 0.4:
            # a slowly relaxing network started close to, but not at, its steady state: the derivatives at the start are below
            # the tolerance although the state still has tens of tolerances to go. Whatever is reported as steady must meet the
            # search's own criterion: carried on exactly (matrix exponential) for one more check step of 100, it changes by
            # less than the tolerance (compared to 10 tolerances)
            from scipy.linalg import expm

            slow = {k_: v_ * 0.01 for k_, v_ in net.params.items()}
            tol_n = r_near.choice([1e-6, 1e-5])
            A_, _b = net.Ab(slow)
            ystar = net.steady(slow)
            ev, evec = np.linalg.eig(A_)
            w = np.real(evec[:, int(np.argmax(ev.real))])
            if np.linalg.norm(A_ @ w) > 0:
                d = 0.5 * tol_n * w / np.linalg.norm(A_ @ w)
                if min(ystar[v] + d[i] for i, v in enumerate(net.variables)) < 0:
                    d = -d
                y0n = {v: float(ystar[v] + d[i]) for i, v in enumerate(net.variables)}
                m_n = rm.build(net.spec())
                m_n.update_parameters(slow)
                how = r_near.choice(["y0", "update_variables"])
                if how == "y0":
                    sim_n = Simulator(m_n, y0=y0n)
                else:
                    sim_n = Simulator(m_n)
                    sim_n.update_variables(y0n)
                sim_n.simulate_to_steady_state(tolerance=tol_n, rel_norm=False)
                res_n = sim_n.get_result().value
                counters["near_start:searches"] = 1
                if isinstance(res_n, Exception):
                    counters["near_start:reported_failure(acceptable)"] = 1
                else:
                    yn = res_n.get_variables(include_derived_variables=False, include_readouts=False, include_surrogate_variables=False).iloc[-1]
                    off = np.array([float(yn[v]) - ystar[v] for v in net.variables])
                    change = float(np.linalg.norm((expm(100.0 * A_) - np.eye(len(off))) @ off))
                    counters["near_start:success_compared"] = 1
                    nontrivial = True
                    if change > 10 * tol_n:
                        viols.append(core.viol("a state reported as steady still changes by more than ten tolerances over the search's own check step", None, net=net.to_json(), parameters=slow,
                                               start=y0n, reported={v: float(yn[v]) for v in net.variables}, analytic_steady_state=ystar, change_over_next_100=change, tolerance=tol_n, start_given_by=how))
        if first is not None:
            # read only now, after the model moved on: state and rates of the earlier result belong to the earlier parameters
            try:
                y1 = first.get_variables(include_derived_variables=False, include_readouts=False, include_surrogate_variables=False, concatenated=False)[n_first - 1].iloc[-1].to_dict()
                bad = check_success(net, dict(net.params), y1, first.get_fluxes(concatenated=False)[n_first - 1].iloc[-1].to_dict(), tol, rel)
            except Exception:  # noqa: BLE001
                import traceback

                bad = {"what": "the state and rates of a result reported as a successful steady state cannot be read", "error": traceback.format_exc()[-500:]}
            counters["stable:earlier_result_read_after_the_model_moved_on"] = 1
            if bad:
                viols.append(core.viol(bad.pop("what") + " [segment found before a later parameter change, read after it]", None, net=net.to_json(), y0=y0, tolerance=tol, rel_norm=rel, parameters=dict(net.params), later_parameters=params_now, **bad))
        sample = {"net": net.to_json(), "y0": y0, "tolerance": tol, "rel_norm": rel}
    elif case["kind"] == "nosteady":
        net, kind = nosteady_net(rng)
        model = rm.build(net.spec())
        tol = rng.choice([1e-4, 1e-6, 1e-8])
        rel = rng.random() < 0.3
        sim = Simulator(model)
        if kind in ("linear_growth", "accumulation") and rng.random() < 0.5:
            # the search starts from an empty system (every variable exactly 0): it still fills without bound
            sim = Simulator(model, y0={v: 0.0 for v in net.variables})
            rel = rng.random() < 0.7
            counters["nosteady:start_from_zeros" + ("(relative norm)" if rel else "")] = 1
        if rng.random() < 0.4:
            # a successful time course first: the failed search must still be what the result reports
            sim.simulate(rng.choice([round(rng.uniform(0.25, 4.0), 3), 100.0, 200.0]), steps=rng.randint(1, 4))
            counters["nosteady:after_a_time_course"] = 1
        sim.simulate_to_steady_state(tolerance=tol, rel_norm=rel)
        res = sim.get_result().value
        nontrivial = True
        counters[f"nosteady:{kind}"] = 1
        if not isinstance(res, Exception):
            y = res.get_variables(include_derived_variables=False, include_readouts=False, include_surrogate_variables=False)
            rhs = model.get_right_hand_side(y.iloc[-1].to_dict(), float(y.index[-1])).to_dict()
            viols.append(core.viol("a state was presented as steady for a network without a steady state", None, kind=kind, net=net.to_json(),
                                   tolerance=tol, rel_norm=rel, t=float(y.index[-1]), state=y.iloc[-1].to_dict(), derivative_there=rhs))
        else:
            counters["nosteady:failure_reported"] = 1
        sample = {"kind": kind, "net": net.to_json()}
    else:
        net = gen_linnet(rng, n_max=3)
        model = rm.build(net.spec())
        kout = [r["k"] for r in net.rxns if r["name"] == "vout"][0]
        vals = [0.5, 0.0, 1.75, 1.0]
        rng.shuffle(vals)
        par = rng.random() < 0.3
        table = pd.DataFrame({kout: vals})
        if rng.random() < 0.4:
            # an initial-value column next to the parameter column (the steady state of these networks does not depend on it)
            table[net.variables[0]] = [round(rng.uniform(0.0, 3.0), 3) for _ in vals]
            counters["scan:initial_value_column_next_to_parameter_column"] = 1
        if rng.random() < 0.4:
            table.index = [0, 1, 0, 1]  # row labels need not be unique; every row is still its own steady-state problem
            counters["scan:repeated_row_labels"] = 1
        res = scan.steady_state(model, to_scan=table, parallel=par)
        var = res.variables
        flx = res.fluxes
        counters["scan:rows"] = len(vals)
        nontrivial = True
        want_idx = vals if table.shape[1] == 1 else [tuple(r) for r in table.itertuples(index=False)]
        if [tuple(i) if isinstance(i, tuple) else i for i in var.index] != want_idx:
            viols.append(core.viol("scan result index differs from input rows", None, got=[str(i) for i in var.index], expected=[str(i) for i in want_idx]))
        for i, kv in enumerate(vals):
            row = var.iloc[i][net.variables].to_dict()
            A_row, _ = net.Ab(net.params | {kout: kv})
            if abs(np.linalg.det(A_row)) < 1e-12:  # no way out of the network: unbounded accumulation
                counters["scan:nosteady_row"] = counters.get("scan:nosteady_row", 0) + 1
                if not all(np.isnan(list(row.values()))):
                    viols.append(core.viol("a state was presented as steady for a network without a steady state", None, kind="scan row with zero efflux", net=net.to_json(), row=row, scanned=kout))
                continue
            if any(np.isnan(list(row.values()))):
                counters["scan:failure_row(acceptable)"] = counters.get("scan:failure_row(acceptable)", 0) + 1
                continue
            bad = check_success(net, net.params | {kout: kv}, row, flx.iloc[i].to_dict(), 1e-6, False)
            counters["scan:success_compared"] = counters.get("scan:success_compared", 0) + 1
            if bad:
                viols.append(core.viol("scan: " + bad.pop("what"), None, net=net.to_json(), scanned={kout: kv}, **bad))
        if rng.random() < 0.5:
            # the same network in small units (an influx of a few nanomolar per second): every row is the steady state of the
            # model with THAT row's influx, so the influx it reports is the row's value (a zero-order rate is its constant)
            kin_name = [r["k"] for r in net.rxns if r["name"] == "vin"][0]
            small = rm.build(net.spec())
            small.update_parameter(kin_name, 1e-9)
            kins = [2e-9, 4e-9, 1e-9, 8e-9]
            rs = scan.steady_state(small, to_scan=pd.DataFrame({kin_name: kins}), parallel=par)
            for i, kv in enumerate(kins):
                got = float(rs.fluxes.iloc[i]["vin"])
                counters["scan:small_units_rows"] = counters.get("scan:small_units_rows", 0) + 1
                if not (np.isnan(got) or abs(got - kv) <= 1e-12 * kv):
                    viols.append(core.viol("scan row reports the influx of another parameter value than its own", None, net=net.to_json(), scanned={kin_name: kv}, reported_influx=got, model_value_before_the_scan=1e-9))
                    break
            # a second search on one simulator after the influx was changed through the plural setter
            from mxlpy import Simulator as _S

            s2 = _S(small)
            s2.simulate_to_steady_state()
            s2.update_parameters({kin_name: 4e-9})
            s2.simulate_to_steady_state()
            r2 = s2.get_result().value
            if not isinstance(r2, Exception):
                got = float(r2.get_fluxes(concatenated=False)[-1].iloc[-1]["vin"])
                if abs(got - 4e-9) > 1e-21:
                    viols.append(core.viol("steady state after update_parameters reports the influx of the earlier value", None, net=net.to_json(), reported_influx=got, set_to=4e-9))
        if rng.random() < 0.4:
            # nested Monte-Carlo x scan with the relative criterion on a slow network in small units (concentrations around 1e-9,
            # far below the absolute tolerance): what is reported as steady is the analytic steady state of its row
            from mxlpy import mc

            kin_name = [r["k"] for r in net.rxns if r["name"] == "vin"][0]
            slow = {k_: (1e-12 if k_ == kin_name else v_ * 1e-3) for k_, v_ in net.params.items()}
            m_slow = rm.build(net.spec())
            m_slow.update_parameters(slow)
            other = [k_ for k_ in slow if k_ not in (kin_name, kout)][:1] or [kout]
            inner = pd.DataFrame({other[0]: [slow[other[0]], 2.0 * slow[other[0]]]})
            outer = pd.DataFrame({kin_name: [1e-12, 3e-12]})
            rs = mc.scan_steady_state(m_slow, to_scan=inner, mc_to_scan=outer, rel_norm=True, max_workers=2)
            vv = rs.variables
            for i_o, kin_v in enumerate(outer[kin_name]):
                for i_i, ov in enumerate(inner[other[0]]):
                    row = vv.iloc[i_o * len(inner) + i_i][net.variables].to_dict()
                    if any(np.isnan(list(row.values()))):
                        continue
                    ystar = net.steady(slow | {kin_name: kin_v, other[0]: ov})
                    counters["mc_scan:small_slow_rows_compared"] = counters.get("mc_scan:small_slow_rows_compared", 0) + 1
                    # (5 %: the relaxation time of the slowed network is of the order of the search's own step, so the relative
                    # criterion stops a little early; a transient taken for a steady state is off by tens of per cent)
                    if any(abs(row[k_] - ystar[k_]) > 5e-2 * abs(ystar[k_]) + 1e-18 for k_ in ystar):
                        viols.append(core.viol("mc.scan_steady_state(rel_norm=True): a state that is not the steady state of its row was reported as steady", None, net=net.to_json(), parameters=slow | {kin_name: kin_v, other[0]: ov}, got=row, expected=ystar))
                        break
        sample = {"scan": {kout: vals}, "net": net.to_json(), "parallel": par}
    return core.result(sig=case["seed"], nontrivial=nontrivial, violations=viols[:3], counters=counters,
                       sample=sample if case.get("idx", 0) < 9 and case.get("idx", 0) % 4 == 0 else None)


def finalize(results: list[dict], tier: str, counters) -> dict:  # noqa: ANN001
    inc = []
    for k in ("stable:success_compared", "scan:success_compared"):
        if not counters.get(k):
            inc.append(f"monitor '{k}' never evaluated")
    if not any(k.startswith("nosteady:") for k in counters):
        inc.append("no no-steady-state network was run")
    return {"inconclusive": inc}
