"""C13 — initial assignments resolve once at t=0; derived parameters are state-free.

Oracle: two-phase reference semantics (mon.refmodel.Ref): phase 0 resolves
everything at t=0 from the declared state; at any later (state, time) the
assignment-defined and parameter-only values are frozen, everything else is
recomputed. Monitors: C01's postconditions (every number in get_args at every
queried state) + explicit checks of get_initial_conditions, Simulator.y0, the
first row of a simulation and the derived-parameter/-variable classification.
"""

from __future__ import annotations

import copy

import os

from mon import contracts as ct
import numpy as np
import pandas as pd

from mon import core
from mon import refmodel as rm
from mon.fnlib import basic as fl

LEVEL = "exploration"
RULE = (
    "models whose initial values / parameter values are defined by initial assignments chained through derived "
    "quantities, rates, surrogate outputs and each other (depth <= 6), derived chains mixing parameter-only and "
    "state-dependent links, zero-argument and time-dependent derived; random declaration order; queried at the "
    "initial and random (state,time). non-trivial = some assignment or parameter-only derived value would differ "
    "if recomputed at the queried state (sensitivity guard) ; distinct = shape signature"
)
ASSUMPTIONS = ["reference two-phase evaluator mon/refmodel.py", "functions non-constant in every argument (mon/fnlib)"]
N = {"quick": 1500, "thorough": 100000}
MIN_NONTRIVIAL = {"quick": 60, "thorough": 600}


def gen_cases(tier: str, seed: int) -> list[dict]:
    n = max(4, int(N[tier] * float(os.environ.get("VERIF_SCALE", "1"))))
    return [{"seed": f"{seed}:C13:{i}"} for i in range(n)]


def worker_init() -> None:
    ct.attach_model()


def gen_ia_spec(rng) -> dict:  # noqa: ANN001
    """IA-heavy spec: chains IA -> derived -> rate -> IA ..."""
    comps: list[dict] = []
    pool: list[str] = []
    static: list[str] = []
    for i in range(rng.randint(1, 3)):
        comps.append({"kind": "parameter", "name": f"p{i}", "value": rm.rnd_val(rng)})
        pool.append(f"p{i}")
        static.append(f"p{i}")
    variables = [f"x{i}" for i in range(rng.randint(1, 4))]
    pending = []
    for v in variables:
        if rng.random() < 0.5:
            pending.append(v)
        else:
            comps.append({"kind": "variable", "name": v, "value": rm.rnd_val(rng)})
            pool.append(v)

    def args(k: int, src: list[str] | None = None, time_ok: bool = False) -> list[str]:
        base = list(pool if src is None else src)
        if time_ok and rng.random() < 0.3:
            base.append("time")
        return [rng.choice(base) for _ in range(k)]

    k = 0
    for _ in range(rng.randint(2, 9)):
        r = rng.random()
        k += 1
        if pending and r < 0.25:
            v = pending.pop()
            ar = rng.randint(0, 3)
            comps.append({"kind": "variable", "name": v, "ia": {"fn": fl.ref(rng.choice(fl.BY_ARITY[ar])), "args": args(ar)}})
            pool.append(v)
        elif r < 0.5:
            ar = rng.randint(0, 3)
            comps.append({"kind": "parameter", "name": f"q{k}", "ia": {"fn": fl.ref(rng.choice(fl.BY_ARITY[ar])), "args": args(ar)}})
            pool.append(f"q{k}")
            static.append(f"q{k}")
        elif r < 0.65:
            ar = rng.randint(0, 3)
            comps.append({"kind": "derived", "name": f"d{k}", "fn": fl.ref(rng.choice(fl.BY_ARITY[ar])), "args": args(ar, static)})
            pool.append(f"d{k}")
            static.append(f"d{k}")
        elif r < 0.82:
            ar = rng.randint(1, 4)
            a = args(ar, time_ok=True)
            comps.append({"kind": "derived", "name": f"d{k}", "fn": fl.ref(rng.choice(fl.BY_ARITY[ar])), "args": a})
            pool.append(f"d{k}")
            if all(x in static for x in a):
                static.append(f"d{k}")
        elif r < 0.95:
            ar = rng.randint(0, 3)
            tv = rng.sample(variables, rng.randint(1, min(2, len(variables))))
            coef = lambda: rng.choice([-1, 1, 2, rng.choice(static), {"fn": fl.ref(rng.choice(fl.BY_ARITY[2])), "args": args(2)}])  # noqa: E731
            comps.append({"kind": "reaction", "name": f"v{k}", "fn": fl.ref(rng.choice(fl.BY_ARITY[ar])), "args": args(ar, time_ok=True), "stoich": {v: coef() for v in tv}})
            pool.append(f"v{k}")
        else:
            comps.append({"kind": "surrogate", "name": f"s{k}", "fn": fl.ref(fl.s2_2), "args": args(2), "outputs": [f"s{k}a", f"s{k}b"],
                          "stoich": {f"s{k}a": {rng.choice(variables): 1.0}}})
            pool.extend([f"s{k}a", f"s{k}b"])
    for v in pending:
        comps.append({"kind": "variable", "name": v, "value": rm.rnd_val(rng)})
    return {"components": comps}


def run_case(case: dict) -> dict:
    from mxlpy import Simulator

    rng = core.rng_for(case["seed"])
    spec = rm.shuffled(gen_ia_spec(rng), rng)
    ref = rm.Ref(spec)
    ct.reset()
    model = rm.build(spec)
    ct.register(model, ref)
    viols: list[dict] = []
    counters: dict[str, int] = {}
    sensitive = False
    try:
        ic = dict(model.get_initial_conditions())
        exp_ic = ref.initial_conditions()
        if list(ic) != list(exp_ic) or any(not core.close(ic[k], exp_ic[k]) for k in exp_ic):
            viols.append(core.viol("get_initial_conditions differs from t=0 resolution", None, got=ic, expected=exp_ic, spec=spec))
        sim = Simulator(model)
        if dict(sim.y0) != ic:
            viols.append(core.viol("Simulator.y0 differs from resolved initial conditions", None, got=dict(sim.y0), expected=ic, spec=spec))
        counters["Simulator.y0 compared"] = 1
        if rng.random() < 0.5:
            # an override made on one simulator is that simulator's business: the model's resolved initial state, and what
            # any other simulator of the same model starts from by default, stay what the declared initial state gives
            other = Simulator(model)
            names = rng.sample(list(exp_ic), rng.randint(1, len(exp_ic)))
            over = {k: round(rng.uniform(3.0, 9.0), 3) for k in names}
            if len(over) == 1 and rng.random() < 0.5:
                other.update_variable(names[0], over[names[0]])
            else:
                other.update_variables(over)
            again = dict(model.get_initial_conditions())
            if any(not core.close(again[k], exp_ic[k]) for k in exp_ic):
                viols.append(core.viol("override on one Simulator changed the model's resolved initial conditions", None, override=over, got=again, expected=exp_ic, spec=spec))
            fresh = dict(Simulator(model).y0)
            if any(not core.close(fresh[k], exp_ic[k]) for k in exp_ic) or any(not core.close(dict(sim.y0)[k], exp_ic[k]) for k in exp_ic):
                viols.append(core.viol("override on one Simulator changed what other simulators of the model start from by default", None, override=over, new_simulator=fresh, earlier_simulator=dict(sim.y0), expected=exp_ic, spec=spec))
            if any(not core.close(dict(other.y0)[k], over.get(k, exp_ic[k])) for k in exp_ic):
                viols.append(core.viol("Simulator.update_variables did not set the pending start state", None, override=over, got=dict(other.y0), spec=spec))
            counters["simulator override isolation compared"] = 1
        dp, dv = set(model.get_derived_parameter_names()), set(model.get_derived_variable_names())
        if dp != set(ref.derived_parameters()) or dv != set(ref.derived_variables()):
            viols.append(core.viol("derived parameter / derived variable classification differs from reachability closure", None,
                                   got_parameters=sorted(dp), expected_parameters=sorted(ref.derived_parameters()),
                                   got_variables=sorted(dv), expected_variables=sorted(ref.derived_variables()), spec=spec))
        counters["classification compared"] = 1
        # assignment-defined parameter values are visible through the argument table
        a0 = model.get_args()
        pv = ref.parameter_values()
        for k, v in pv.items():
            if not core.close(a0[k], v):
                viols.append(core.viol("assignment-defined parameter value differs at t=0", None, name=k, got=float(a0[k]), expected=v, spec=spec))
        frozen_names = list(pv) + ref.derived_parameters()
        for _ in range(3):
            st = rm.random_state(ref, rng)
            t = round(rng.uniform(0.5, 4.0), 3)
            got = model.get_args(st, t)  # contract compares everything with ref.at(st, t)
            model.get_right_hand_side(st, t)
            for k in frozen_names:
                if not core.close(got[k], a0[k]):
                    viols.append(core.viol("frozen value changed with state/time", None, name=k, at0=float(a0[k]), later=float(got[k]), spec=spec))
            # sensitivity: would a recomputation at (st,t) have given something else?
            sensitive = sensitive or _recompute_differs(ref, st, t)
            # the table of coefficients is asked for at this state, and the derivatives again afterwards (asking changes nothing)
            tab_ = model.get_stoichiometries(st, t)
            for v_ in [r_ for r_ in tab_.index if (tab_.loc[r_] != 0).any()]:  # (a variable no reaction touches has no table of its own)
                model.get_stoichiometries_of_variable(v_, st, t)
            model.get_right_hand_side(st, t)
            model(t, np.array([st[v] for v in model.get_variable_names()], dtype=float))
            # derivatives over a table of states: computed coefficients follow every row's own state and time
            st_b = rm.random_state(ref, rng)
            tab = pd.DataFrame([st, st_b], index=[t, t + 1.25])
            model.get_right_hand_side_time_course(args=model.get_args_time_course(tab))
            counters["right-hand sides over a table of states"] = counters.get("right-hand sides over a table of states", 0) + 1
            # the supplied state is a row the model handed out (variables together with the derived quantities and rates that
            # were computed from them), with a variable edited and another time asked for: everything that is not frozen is
            # recomputed from the variables supplied (the contracts compare with the reference at those variables)
            pnames = set(model.get_parameter_names()) | set(frozen_names) | {"time"}
            row = {k: float(v) for k, v in dict(got).items() if k not in pnames}
            if len(row) > len(st):
                v_edit = rng.choice(sorted(st))
                row[v_edit] = round(row[v_edit] * rng.choice([0.5, 2.0, 3.0]) + 0.125, 4)
                t2 = round(t + rng.uniform(0.5, 2.0), 3)
                model.get_args(row, t2)
                model.get_right_hand_side(row, t2)
                model.get_fluxes(row, t2)
                frame = pd.DataFrame([row, {**row, v_edit: row[v_edit] + 0.5}], index=[t2, t2 + 1.0])
                model.get_args_time_course(frame)
                model.get_fluxes_time_course(frame)
                counters["rows handed out by the model supplied again with a variable edited"] = counters.get("rows handed out by the model supplied again with a variable edited", 0) + 1
        # the declared initial state at a later time (implicit, and as the very object the model handed out): what depends
        # on time is recomputed, what is frozen stays
        for t_late in (round(rng.uniform(0.5, 4.0), 3), 40.0):
            g1 = model.get_args(time=t_late)  # contract compares with ref.at(None, t)
            model.get_right_hand_side(time=t_late)
            model.get_fluxes(time=t_late)
            g2 = model.get_args(model.get_initial_conditions(), t_late)
            for k in frozen_names:
                if not core.close(g1[k], a0[k]) or not core.close(g2[k], a0[k]):
                    viols.append(core.viol("frozen value changed with time at the initial state", None, name=k, at0=float(a0[k]), later=float(g1[k]), spec=spec))
        counters["initial state queried at later times"] = 2
        counters["states queried"] = 3
        # the declared initial state changes (plain number for one variable) after everything was resolved and queried once:
        # "computed once, at time zero from the declared initial state" now means the new declaration
        plain = [c for c in spec["components"] if c["kind"] == "variable" and "value" in c]
        if plain and rng.random() < 0.5:
            tgt = rng.choice(plain)["name"]
            newv = round(rng.uniform(3.0, 9.0), 3)
            spec2 = copy.deepcopy(spec)
            for c in spec2["components"]:
                if c["kind"] == "variable" and c["name"] == tgt:
                    c["value"] = newv
            ref2 = rm.Ref(spec2)
            ct.register(model, ref2)
            if rng.random() < 0.5:
                model.update_variable(tgt, newv)
            else:
                model.update_variables({tgt: newv})
            ic2, exp2 = dict(model.get_initial_conditions()), ref2.initial_conditions()
            if any(not core.close(ic2[k], exp2[k]) for k in exp2):
                viols.append(core.viol("after re-declaring an initial value, initial conditions differ from t=0 resolution of the new declaration", None, variable=tgt, value=newv, got=ic2, expected=exp2, spec=spec))
            a2 = model.get_args()  # contract compares every name with ref2 at t=0
            for k, v in ref2.parameter_values().items():
                if not core.close(a2[k], v):
                    viols.append(core.viol("after re-declaring an initial value, an assignment-defined parameter keeps its old value", None, variable=tgt, value=newv, name=k, got=float(a2[k]), expected=v, spec=spec))
            st = rm.random_state(ref2, rng)
            model.get_args(st, 1.5)
            model.get_right_hand_side(st, 1.5)
            exp_ic, ref = exp2, ref2
            sim = Simulator(model)
            counters["initial value re-declared after resolution"] = 1
        # simulations start from the resolved initial conditions by default
        try:
            with core.time_limit(5):
                sim.simulate(0.125, steps=2)
                res = sim.get_result().value
        except core.TimeLimit:
            res = Exception("budget")
        if not isinstance(res, Exception):
            first = res.get_variables(include_derived_variables=False, include_readouts=False, include_surrogate_variables=False).iloc[0].to_dict()
            if any(not core.close(first[k], exp_ic[k]) for k in exp_ic):
                viols.append(core.viol("simulation does not start from resolved initial conditions", None, got=first, expected=exp_ic, spec=spec))
            counters["simulation start compared"] = 1
            # result views were read (they re-apply each segment's parameters to the model and restore them); afterwards
            # a parameter the assignments name is re-declared: assignment-defined values follow the new declaration
            try:
                _ = res.fluxes
                _ = res.variables
            except Exception:  # noqa: BLE001, S110
                pass
            cur_spec = spec2 if counters.get("initial value re-declared after resolution") else spec
            plain_p = [c for c in cur_spec["components"] if c["kind"] == "parameter" and "value" in c]
            if plain_p:
                tp = rng.choice(plain_p)["name"]
                spec3 = copy.deepcopy(cur_spec)
                for c in spec3["components"]:
                    if c["kind"] == "parameter" and c["name"] == tp:
                        c["value"] = round(c["value"] * rng.choice([0.5, 2.0, 3.0]) + 0.125, 4)
                        newp = c["value"]
                ref3 = rm.Ref(spec3)
                ct.register(model, ref3)
                model.update_parameter(tp, newp)
                a3 = model.get_args()  # contract: every name against ref3 at t = 0
                for k, v in ref3.parameter_values().items():
                    if not core.close(a3[k], v):
                        viols.append(core.viol("after reading result views and re-declaring a parameter, an assignment-defined parameter keeps its old value", None, parameter=tp, value=newp, name=k, got=float(a3[k]), expected=v, spec=spec))
                ic3, exp3 = dict(model.get_initial_conditions()), ref3.initial_conditions()
                if any(not core.close(ic3[k], exp3[k]) for k in exp3):
                    viols.append(core.viol("after reading result views and re-declaring a parameter, initial conditions differ from t=0 resolution", None, parameter=tp, value=newp, got=ic3, expected=exp3, spec=spec))
                counters["parameter re-declared after result views were read"] = 1
        # several parameters are scaled in one call, what the assignments name before the assignment-defined parameters
        # themselves: each entry is applied to the model as scaled so far (an assignment-defined parameter becomes its value
        # resolved at time zero from the content at that moment, times its factor)
        iap = [c["name"] for c in spec["components"] if c["kind"] == "parameter" and "ia" in c]
        plain_q = [c["name"] for c in spec["components"] if c["kind"] == "parameter" and "value" in c]
        if iap and plain_q and rng.random() < 0.6:
            r3 = core.rng_for(case["seed"] + ":scale")
            order = r3.sample(plain_q, r3.randint(1, len(plain_q))) + r3.sample(iap, r3.randint(1, len(iap)))
            if r3.random() < 0.3:
                r3.shuffle(order)
            factors = {n: r3.choice([0.5, 2.0, 3.0]) for n in order}
            spec_c = copy.deepcopy(spec)
            try:
                for n, fac in factors.items():
                    now = rm.Ref(spec_c).parameter_values()[n]
                    for c in spec_c["components"]:
                        if c["kind"] == "parameter" and c["name"] == n:
                            c.pop("ia", None)
                            c["value"] = now * fac
                ref_c = rm.Ref(spec_c)
            except Exception:  # noqa: BLE001
                ref_c = None
            if ref_c is not None and all(np.isfinite(v) for v in ref_c.parameter_values().values()):
                m_c = rm.build(spec)
                m_c.get_args()
                if r3.random() < 0.5:
                    m_c.scale_parameters(dict(factors))
                else:
                    Simulator(m_c).scale_parameters(dict(factors))
                ct.register(m_c, ref_c)
                try:
                    a_c = m_c.get_args()
                    for k_, v_ in ref_c.parameter_values().items():
                        if not core.close(a_c[k_], v_, 1e-9):
                            viols.append(core.viol("after scaling several parameters in one call, a parameter differs from the entries applied one after the other", None,
                                                   factors=factors, name=k_, got=float(a_c[k_]), expected=v_, spec=spec))
                    ic_c, exp_c = dict(m_c.get_initial_conditions()), ref_c.initial_conditions()
                    if any(not core.close(ic_c[k_], exp_c[k_]) for k_ in exp_c):
                        viols.append(core.viol("after scaling several parameters in one call, initial conditions differ from t=0 resolution", None, factors=factors, got=ic_c, expected=exp_c, spec=spec))
                    st_c = rm.random_state(ref_c, rng)
                    m_c.get_args(st_c, 1.25)
                    counters["assignment-defined parameters scaled in one call with what they name"] = 1
                finally:
                    ct.unregister(m_c)
        # a variable whose initial value is assigned is made static without a value: it is an assignment-defined parameter from
        # then on (resolved once at time zero, the same for every state and time), and what depends only on it and on
        # parameters is a derived parameter
        iav = [c["name"] for c in spec["components"] if c["kind"] == "variable" and "ia" in c]
        if iav and rng.random() < 0.5:
            tv = rng.choice(iav)
            spec_s = copy.deepcopy(spec)
            for c in spec_s["components"]:
                if c["kind"] == "variable" and c["name"] == tv:
                    c["kind"] = "parameter"
                if c["kind"] == "reaction":
                    c["stoich"] = {k_: v_ for k_, v_ in c["stoich"].items() if k_ != tv}
                if c["kind"] == "surrogate":
                    c["stoich"] = {f_: {k_: v_ for k_, v_ in st_.items() if k_ != tv} for f_, st_ in c.get("stoich", {}).items()}
            try:
                ref_s = rm.Ref(spec_s)
            except Exception:  # noqa: BLE001
                ref_s = None
            if ref_s is not None:
                m_s = rm.build(spec)
                m_s.get_args()
                m_s.make_variable_static(tv)
                ct.register(m_s, ref_s)
                try:
                    if tv not in m_s.get_parameter_names():
                        viols.append(core.viol("a variable with an assigned initial value, made static, is not a parameter", None, name=tv, parameters=m_s.get_parameter_names(), spec=spec))
                    dp_s, dv_s = set(m_s.get_derived_parameter_names()), set(m_s.get_derived_variable_names())
                    if dp_s != set(ref_s.derived_parameters()) or dv_s != set(ref_s.derived_variables()):
                        viols.append(core.viol("derived parameter / derived variable classification differs after a variable was made static", None, name=tv,
                                               got_parameters=sorted(dp_s), expected_parameters=sorted(ref_s.derived_parameters()), spec=spec))
                    m_s.get_args()
                    st_s = rm.random_state(ref_s, rng)
                    m_s.get_args(st_s, 1.75)
                    m_s.get_right_hand_side(st_s, 1.75)
                    counters["assigned variable made static without a value"] = 1
                finally:
                    ct.unregister(m_s)
    except Exception as e:  # noqa: BLE001
        import traceback

        viols.append(core.viol("well-formed model raised", None, error=traceback.format_exc()[-800:], spec=spec))
    for w in ct.WITNESS[:4]:
        viols.append(core.viol(f"{w['where']}: {w['what']}", None, witness=w, spec=spec))
    for k, v in ct.COUNT.items():
        counters[k] = v
    ct.unregister(model)
    return core.result(sig=rm.shape_sig(spec), nontrivial=sensitive, violations=viols, counters=counters,
                       sample={"spec": spec} if case.get("idx", 0) < 2 else None)


def _recompute_differs(ref: rm.Ref, st: dict, t: float) -> bool:
    """Would re-evaluating an assignment / parameter-only derived at (st,t) differ from its frozen value?"""
    vals = ref.at(st, t, readouts=False)
    for c in ref.comps:
        if c["kind"] == "parameter" and "ia" in c:
            try:
                again = rm.fn_of(c["ia"])(*[vals[a] if a != "time" else t for a in c["ia"]["args"]])
            except Exception:  # noqa: BLE001
                continue
            if abs(again - vals[c["name"]]) > 1e-6:
                return True
    return False


def finalize(results: list[dict], tier: str, counters) -> dict:  # noqa: ANN001
    inc = []
    for k in ("Model.get_args", "Simulator.y0 compared", "classification compared", "simulation start compared"):
        if not counters.get(k):
            inc.append(f"monitor '{k}' never evaluated")
    return {"inconclusive": inc}
