"""C01 — derivatives equal stoichiometry x rates over fully resolved values.

Monitor: icontract postconditions on every Model entry point compare each
returned number with the independent reference evaluator (mon.refmodel.Ref) on
generated models, at chosen states and at the states an integrator visits.
"""

from __future__ import annotations

import copy

import pandas as pd

from mon import contracts as ct
from mon import core
from mon import refmodel as rm

LEVEL = "exploration"
RULE = (
    "random well-formed ModelSpecs (parameters, initial assignments, derived chains incl. derived-of-flux, "
    "numeric/named/computed coefficients, multi-output MockSurrogates, data, time arguments) built in a random "
    "declaration order; every entry point called at the initial state and random (state,time) points and a short "
    "integration; non-trivial = spec has a state-dependent computed coefficient, a derived-of-flux or a surrogate; "
    "distinct = distinct shape signature (kinds x argument-provider kinds x coefficient kinds)"
)
ASSUMPTIONS = [
    "reference evaluator mon/refmodel.py is the oracle (independent DFS evaluator, shares no code with Model)",
    "functions in mon/fnlib are total and deterministic",
]
N = {"quick": 1500, "thorough": 80000}
MIN_NONTRIVIAL = {"quick": 50, "thorough": 500}
ENTRY = [
    "Model.__call__", "Model.get_right_hand_side", "Model.get_fluxes", "Model.get_args",
    "Model.get_args_time_course", "Model.get_fluxes_time_course", "Model.get_right_hand_side_time_course",
    "Model.get_stoichiometries",
]


def gen_cases(tier: str, seed: int) -> list[dict]:
    import os

    n = max(4, int(N[tier] * float(os.environ.get("VERIF_SCALE", "1"))))
    return [{"seed": f"{seed}:C01:{i}", "integrate": i % 4 == 0} for i in range(n)]


def worker_init() -> None:
    ct.attach_model()


def features(spec: dict, ref: rm.Ref) -> dict:
    fx = set(ref.flux_names())
    dyn_coef = der_of_flux = surr = named = False
    for c in spec["components"]:
        if c["kind"] == "surrogate":
            surr = True
        if c["kind"] == "derived" and any(a in fx for a in c["args"]):
            der_of_flux = True
        sts = [c["stoich"]] if c["kind"] == "reaction" else list(c.get("stoich", {}).values()) if c["kind"] == "surrogate" else []
        for st in sts:
            for v in st.values():
                if isinstance(v, dict) and not all(ref.is_static(a) for a in v["args"]):
                    dyn_coef = True
                if isinstance(v, str):
                    named = True
    return {"dyn_coef": dyn_coef, "der_of_flux": der_of_flux, "surrogate": surr, "named_coef": named}


def run_case(case: dict) -> dict:
    rng = core.rng_for(case["seed"])
    spec = rm.shuffled(rm.gen_spec(rng), rng)
    ref = rm.Ref(spec)
    ct.reset()
    model = rm.build(spec)
    ct.register(model, ref)
    feats = features(spec, ref)
    viols: list[dict] = []
    try:
        states = [None] + [rm.random_state(ref, rng) for _ in range(3)]
        # named states are mappings: their key order is free
        states = [st if st is None else dict(rng.sample(list(st.items()), len(st))) for st in states]
        times = [0.0, round(rng.uniform(0.1, 5.0), 3)]
        for st in states:
            for t in times:
                y = [ref.initial_conditions()[v] if st is None else st[v] for v in ref.variables]
                model(t, y)
                model.get_right_hand_side(st, t)
                model.get_fluxes(st, t)
                model.get_args(st, t)
                model.get_args(st, t, include_readouts=True)
                tab_ = model.get_stoichiometries(st, t)
                for v_ in [r_ for r_ in tab_.index if (tab_.loc[r_] != 0).any()]:  # (a variable no reaction touches has no table of its own)
                    model.get_stoichiometries_of_variable(v_, st, t)
        frame = pd.DataFrame(
            [rm.random_state(ref, rng) for _ in range(3)],
            index=[0.0, 0.5, 2.25],
        )[ref.variables]
        if len(ref.variables) > 1 and rng.random() < 0.5:
            # a state table is labelled; its column order is the caller's business (sorted, built from a dict, ...)
            frame = frame[rng.sample(list(ref.variables), len(ref.variables))]
            counters_cols = 1
        args_tc = model.get_args_time_course(frame)
        model.get_args_time_course(frame, include_readouts=True)
        model.get_fluxes_time_course(frame)
        model.get_right_hand_side_time_course(args_tc)
        # the same object after a parameter changed: everything the derivative is made of (named and computed coefficients
        # included) is its function applied to the values its arguments have NOW
        plain = [c for c in spec["components"] if c["kind"] == "parameter" and "value" in c]
        if plain and rng.random() < 0.5:
            named = {v for c in spec["components"] if c["kind"] == "reaction" for v in c["stoich"].values() if isinstance(v, str)}
            named |= {a for c in spec["components"] if c["kind"] == "reaction" for v in c["stoich"].values() if isinstance(v, dict) for a in v["args"]}
            cands = [c["name"] for c in plain if c["name"] in named] or [c["name"] for c in plain]
            tgt = rng.choice(cands)
            old_v = next(c["value"] for c in plain if c["name"] == tgt)
            factor = rng.choice([0.5, 2.0, 3.0])
            spec2 = copy.deepcopy(spec)
            for c in spec2["components"]:
                if c["kind"] == "parameter" and c["name"] == tgt:
                    c["value"] = old_v * factor
            ref2 = rm.Ref(spec2)
            ct.register(model, ref2)
            how = rng.choice(["update_parameter", "update_parameters", "scale_parameter"])
            if how == "update_parameter":
                model.update_parameter(tgt, old_v * factor)
            elif how == "update_parameters":
                model.update_parameters({tgt: old_v * factor})
            else:
                model.scale_parameter(tgt, factor)
            for st in [None, rm.random_state(ref2, rng)]:
                t = round(rng.uniform(0.1, 5.0), 3)
                y = [ref2.initial_conditions()[v] if st is None else st[v] for v in ref2.variables]
                model(t, y)
                model.get_right_hand_side(st, t)
                tab_ = model.get_stoichiometries(st, t)
                for v_ in [r_ for r_ in tab_.index if (tab_.loc[r_] != 0).any()]:  # (a variable no reaction touches has no table of its own)
                    model.get_stoichiometries_of_variable(v_, st, t)
                model.get_fluxes(st, t)
            updated = 1
        if case.get("integrate"):
            from mxlpy import Simulator

            try:
                with core.time_limit(5):  # random polynomial right-hand sides may blow up; the budget is not a verdict
                    sim = Simulator(model)
                    sim.simulate(0.25, steps=5)
                    res = sim.get_result().value
                    if not isinstance(res, Exception):
                        # result views are model queries too (time-course forms)
                        _ = res.fluxes
            except core.TimeLimit:
                counters_extra = 1
    except Exception as e:  # noqa: BLE001
        viols.append(core.viol("well-formed model raised", None, error=repr(e)[:500], spec=spec))
    for w in ct.WITNESS[:5]:
        viols.append(core.viol(f"{w['where']}: {w['what']}", None, witness=w, spec=spec))
    counters = dict(ct.COUNT)
    counters["cases_with_integration"] = int(bool(case.get("integrate")))
    counters["re-queried after a parameter update on the same object"] = int("updated" in locals())
    counters["state_table_columns_not_in_declaration_order"] = int("counters_cols" in locals())
    counters["integration_budget_exhausted"] = int("counters_extra" in locals())
    for k, v in feats.items():
        counters[f"feature:{k}"] = int(v)
    ct.unregister(model)
    return core.result(
        sig=rm.shape_sig(spec),
        nontrivial=feats["dyn_coef"] or feats["der_of_flux"] or feats["surrogate"],
        violations=viols,
        counters=counters,
        sample={"spec": spec} if case.get("idx", 0) < 2 else None,
    )


def finalize(results: list[dict], tier: str, counters) -> dict:  # noqa: ANN001
    inc = [f"contract on {e} had zero evaluations" for e in ENTRY if counters.get(e, 0) == 0]
    return {"inconclusive": inc, "contract_evaluations": {e: counters.get(e, 0) for e in ENTRY}}
