"""C14 — protocols: each step's parameter values hold exactly over its interval.

Shares the sequential specification / closed-form checker of C04 (mon.simhist)
and adds: the manual twin (update_parameters + simulate per step on a second
simulator, same-algorithm tolerance), exact index arithmetic for the
time-course form on dyadic times, and fluxes evaluated with the step's values.
"""

from __future__ import annotations

import copy
import os

import numpy as np

from mon import core, simhist
from mon import refmodel as rm
from mon.linmodel import gen_linnet

LEVEL = "exploration"
RULE = (
    "protocols with 1..6 steps of unequal dyadic durations over 1..3 parameters (repeated values allowed), run on "
    "fresh simulators and on simulators continued after simulate / update_variable / an earlier protocol; "
    "time-course grids coinciding with boundaries, between them, starting at 0, beyond the end, absolute and relative; "
    "non-trivial = some step is sensitive (>100x tol) to stale parameters (previous step's values) ; distinct = "
    "(prefix, protocol, grid) hash"
)
ASSUMPTIONS = ["closed form via expm; dyadic times make index equality exact", "a protocol names the same parameters in every step (DataFrame semantics)"]
N = {"quick": 400, "thorough": 100000}
MIN_NONTRIVIAL = {"quick": 80, "thorough": 1500}


def gen_cases(tier: str, seed: int) -> list[dict]:
    n = max(4, int(N[tier] * float(os.environ.get("VERIF_SCALE", "1"))))
    return [{"seed": f"{seed}:C14:{i}"} for i in range(n)]


def dy(rng, lo: float, hi: float) -> float:  # noqa: ANN001
    return rng.randint(int(lo * 8), int(hi * 8)) / 8.0


def gen_protocol(rng, pnames: list[str]) -> list:  # noqa: ANN001
    pp = rng.sample(pnames, rng.randint(1, min(3, len(pnames))))
    vals = [dy(rng, 0.25, 2.5) for _ in range(3)]
    steps = []
    for _ in range(rng.randint(1, 6)):
        # every step names the same parameters, each step in its own key order (the values belong to their names)
        steps.append((dy(rng, 0.125, 2.0), {p: (0.0 if rng.random() < 0.12 else rng.choice(vals) if rng.random() < 0.4 else dy(rng, 0.25, 2.5)) for p in rng.sample(pp, len(pp))}))  # a step may switch something off: exactly 0
    return steps


def run_case(case: dict) -> dict:
    from mxlpy import Simulator

    rng = core.rng_for(case["seed"])
    net = gen_linnet(rng)
    model = rm.build(net.spec())
    sim = Simulator(model)
    spec = simhist.Spec(net, net.y0)
    history: list[dict] = []
    viols: list[dict] = []
    counters: dict[str, int] = {"protocol_steps": 0, "segments_checked": 0}
    # prefix: fresh or continued
    prefix = rng.choice(["fresh", "simulate", "override", "protocol", "simulate+override", "simulate+update_parameter", "protocol+update_parameter"])
    if prefix in ("override", "simulate+override", "protocol", "simulate") and core.rng_for(case["seed"] + ":clear").random() < 0.3:
        prefix += "+clear"  # the simulator is emptied again before the protocol: it then runs as on a fresh simulator (from Simulator.y0, at t = 0)
    pre: list[dict] = []
    if "simulate" in prefix:
        pre.append({"op": "simulate", "t_end": dy(rng, 0.25, 2.0), "steps": rng.randint(1, 5)})
    if "override" in prefix:
        if not pre:
            pre.append({"op": "simulate", "t_end": dy(rng, 0.25, 2.0)})
        pre.append({"op": "update_variable", "name": rng.choice(net.variables), "value": dy(rng, 0.0, 4.0)})
    if prefix in ("protocol", "protocol+clear"):
        pre.append({"op": "protocol", "steps": gen_protocol(rng, list(net.params)), "n": rng.randint(1, 4)})
    if prefix.endswith("+clear"):
        pre.append({"op": "clear"})
    counters[f"prefix:{prefix}"] = 1
    steps = gen_protocol(rng, list(net.params))
    long_steps = rng.random() < 0.2
    if long_steps:
        # step boundaries at large model times (hundreds to thousands), with requested points a few milliseconds after a switch
        # (a third of them in an experiment that runs for days: 2**15 s is about nine hours)
        stretch = rng.choice([512.0, 512.0, 32768.0])
        steps = [(d * stretch, v) for d, v in steps[:4]]
        counters["long_steps"] = 1
        counters["protocols_longer_than_a_day"] = int(sum(d for d, _ in steps) > 86400.0)
    if "update_parameter" in prefix:
        # a parameter is changed without simulating, and the protocol's first step sets it back to the value it had
        # during the previous integration (bookkeeping that remembers 'the values last simulated with' shows here)
        if prefix.startswith("protocol"):
            pre.append({"op": "protocol", "steps": gen_protocol(rng, list(net.params)), "n": rng.randint(1, 3)})
        pname = rng.choice(sorted(steps[0][1]))
        last = net.params[pname]
        for op_ in pre:
            if op_["op"] == "protocol":
                for _d, vals in op_["steps"]:
                    last = vals.get(pname, last)
        pre.append({"op": "update_parameter", "name": pname, "value": dy(rng, 0.25, 2.5) + 3.0})
        steps[0][1][pname] = last
    total = sum(d for d, _ in steps)
    form = rng.choice(["protocol", "protocol_tc"])
    if form == "protocol":
        main = {"op": "protocol", "steps": steps, "n": rng.randint(1, 8)}
    else:
        rel = rng.random() < 0.5
        kind = rng.choice(["boundaries", "between", "zero", "beyond", "mixed", "illegal"])
        bounds = list(np.cumsum([d for d, _ in steps]))
        if long_steps and kind != "illegal":
            kind = "after_switches"
            pts = [b + off for b in bounds[:-1] for off in rng.sample([2.0**-8, 2.0**-6, 2.0**-3, 1.0], 2)] + [bounds[-1] - 2.0**-7] + rng.sample(bounds, 1)
        elif kind == "boundaries":
            pts = rng.sample(bounds, rng.randint(1, len(bounds)))
        elif kind == "between":
            pts = [dy(rng, 0.0625, total) + 0.0625 for _ in range(rng.randint(1, 6))]
        elif kind == "zero":
            pts = [0.0] + [dy(rng, 0.125, total) for _ in range(rng.randint(1, 4))]
        elif kind == "beyond":
            pts = [dy(rng, 0.125, total) for _ in range(rng.randint(1, 3))] + [total + dy(rng, 0.125, 2.0)]
        elif kind == "mixed":
            pts = rng.sample(bounds, 1) + [dy(rng, 0.125, total + 1.0) for _ in range(rng.randint(1, 5))]
        else:
            pts = [0.0]
        pts = sorted({float(p) for p in pts})
        counters[f"grid:{kind}"] = 1
        main = {"op": "protocol_tc", "steps": steps, "points": pts, "relative": rel}
    mains = [main]
    if form == "protocol_tc" and main["relative"] and kind != "illegal" and rng.random() < 0.6:
        # the same relative grid (the same array object) used for a second protocol run that continues the first
        mains.append({"op": "protocol_tc", "steps": gen_protocol(rng, list(net.params)) if rng.random() < 0.5 else steps, "points": pts, "relative": True})
        counters["relative_grid_array_reused_for_a_second_run"] = 1
    for op in [*pre, *mains]:
        if op["op"] == "protocol_tc" and not op.get("relative"):
            # absolute grid: points are given in absolute model time
            op = dict(op)
            op["points"] = [p + spec.t_reached for p in op["points"]]
            if kind == "illegal":
                op["points"] = [max(0.0, spec.t_reached - 0.125)] if spec.t_reached > 0 else [0.0]
        history.append(op)
        v, stop = simhist.execute(sim, spec, op)
        if not stop:
            v += simhist.verify(spec, sim, check_fluxes=True)
            counters["segments_checked"] += len(spec.segments)
        for x in v:
            viols.append(core.viol(x.pop("what"), None, net=net.to_json(), history=copy.deepcopy(history), **x))
        if stop or v:
            break
    counters["protocol_steps"] += len(steps)
    # manual twin for the plain form: update_parameters + simulate per step
    if not viols and form == "protocol":
        net2_model = rm.build(net.spec())
        sim2 = Simulator(net2_model)
        spec2 = simhist.Spec(net, net.y0)
        ok = True
        for op in pre:
            _, stop = simhist.execute(sim2, spec2, op)
            ok = ok and not stop
        if ok:
            t = spec2.t_reached
            for d, vals in steps:
                sim2.update_parameters(vals)
                t += d
                sim2.simulate(t, steps=main["n"])
            a = sim.get_result().value.get_variables(include_derived_variables=False, include_readouts=False, include_surrogate_variables=False)
            b = sim2.get_result().value.get_variables(include_derived_variables=False, include_readouts=False, include_surrogate_variables=False)
            if a.shape != b.shape or not np.allclose(a.index, b.index, rtol=0, atol=1e-12) or not np.allclose(a.to_numpy(), b.to_numpy(), rtol=1e-9, atol=1e-12):
                viols.append(core.viol("simulate_protocol differs from applying each step's values and simulating in turn", None, net=net.to_json(), history=history))
            counters["manual_twin_compared"] = 1
    counters[f"form:{form}"] = 1
    counters["sensitive:stale_params"] = spec.sensitive["stale_params"]
    return core.result(sig=core.sha(history), nontrivial=spec.sensitive["stale_params"] > 0, violations=viols[:4], counters=counters,
                       sample={"net": net.to_json(), "history": history} if case.get("idx", 0) < 2 else None)


def finalize(results: list[dict], tier: str, counters) -> dict:  # noqa: ANN001
    inc = []
    for k in ("segments_checked", "manual_twin_compared", "form:protocol_tc"):
        if not counters.get(k):
            inc.append(f"monitor '{k}' never evaluated")
    return {"inconclusive": inc}
