"""C06 — Python-to-symbolic translation is sound: equal everywhere, or refused.

Differential monitor: generated function bodies are written to real module
files, translated with the real fn_to_sympy (with and without argument
renaming) and the expression is evaluated by exact simultaneous substitution
at lattice points (branch boundaries, equalities) and random points; the oracle
is the Python function itself, executed.
"""

from __future__ import annotations

import importlib
import importlib.util
import itertools
import math
import os
import sys

from mon import core
from mon.gen_programs import HELPER_SRC, PARAMS, Gen

LEVEL = "exploration"
RULE = (
    "generated modules of 6 functions each (local/tuple/re-assignments, if/elif/else with returns and/or assignments "
    "in any branch, reassignment of a live name in one branch, statements after if/else chains, nested ifs, "
    "conditional expressions, < <= > >= == != and chained comparisons, ** // %, nested calls into the same and another "
    "module, module-level and math constants; just outside: and/or/not, augmented assignment, loops, subscripts, "
    "lambdas, default arguments) x renamings {none, fresh names, own names permuted, shifted} x lattice {-1,0,.5,1,2}^n "
    "sample + random points. non-trivial = translated (not refused) and has a branch, a nested call or an overlapping "
    "renaming; distinct = function source hash"
)
ASSUMPTIONS = [
    "oracle: the Python function executed; points where Python raises or returns a non-finite / non-real value are outside the domain",
    "expression evaluated by xreplace (simultaneous, structural) + evalf; an exception from fn_to_sympy counts as a visible refusal",
]
N = {"quick": 120, "thorough": 9000}
MIN_NONTRIVIAL = {"quick": 100, "thorough": 2500}
LATTICE = [-1.0, 0.0, 0.5, 1.0, 2.0]


_PKGS = os.path.join(os.path.dirname(os.path.dirname(os.path.abspath(__file__))), "mon", "fnlib", "pkgs")
if _PKGS not in sys.path:
    sys.path.insert(0, _PKGS)  # the package `kinlib` read by the generated modules


def gen_cases(tier: str, seed: int) -> list[dict]:
    n = max(4, int(N[tier] * float(os.environ.get("VERIF_SCALE", "1"))))
    return [{"seed": f"{seed}:C06:{i}", "i": i, "n": min(n, 120)} for i in range(n)]


def _write_modules(case: dict, rng, *, redefinition: bool = False) -> tuple[object, list[dict], str]:  # noqa: ANN001
    root = os.path.join(os.environ.get("VERIF_WORKDIR", "/tmp"), "c06pkg")  # noqa: S108
    os.makedirs(root, exist_ok=True)
    if root not in sys.path:
        sys.path.insert(0, root)
    tag = core.sha(case["seed"])
    helper = f"hlp_{tag}"
    modname = f"gen_{tag}"
    with open(os.path.join(root, helper + ".py"), "w") as fh:
        fh.write(HELPER_SRC.format(helper=helper))
    src, meta = Gen(rng, helper).module(6, sweep_slice=(int(case.get("i", 0)), int(case.get("n", 1))) if "n" in case else None)
    if redefinition:
        path = os.path.join(root, modname + "_again.py")
        with open(path, "w") as fh:
            fh.write(src)
        spec = importlib.util.spec_from_file_location(modname, path)
        mod = importlib.util.module_from_spec(spec)
        sys.modules[modname] = mod
        spec.loader.exec_module(mod)
        return mod, meta, src
    sys.modules.pop(modname, None)
    with open(os.path.join(root, modname + ".py"), "w") as fh:
        fh.write(src)
    importlib.invalidate_caches()
    mod = importlib.import_module(modname)
    return mod, meta, src


FRAGILE = {"n": 0}


def _dyadic(v: float) -> bool:
    try:
        return float(v * 1024.0).is_integer() and abs(v) < 1e6
    except (TypeError, ValueError, OverflowError):
        return False


def _cmpchain(left, ops, atoms, *rights):  # noqa: ANN001, ANN002, ANN202
    """Python semantics of a (chained) comparison; records comparisons decided by rounding:
    operands within 1e-9 of each other that are not both small dyadic rationals (exact in every arithmetic)."""
    import operator

    table = {"Lt": operator.lt, "LtE": operator.le, "Gt": operator.gt, "GtE": operator.ge, "Eq": operator.eq, "NotEq": operator.ne}
    res = True
    a = left
    for i, (op, b) in enumerate(zip(ops, rights)):
        try:
            # exact only when both operands are plain names / literals with small dyadic values; computed operands
            # that are (nearly) equal are decided by the order of floating-point operations, which an algebraically
            # equivalent expression does not preserve
            exact = atoms[i] and atoms[i + 1] and _dyadic(a) and _dyadic(b)
            if abs(a - b) <= 1e-9 * max(1.0, abs(a), abs(b)) and not exact:
                FRAGILE["n"] += 1
        except TypeError:
            pass
        res = res and table[op](a, b)
        a = b
    return res


def instrumented_twin(src: str, modname: str) -> dict:
    """Same module with every comparison routed through _cmpchain (AST transform)."""
    import ast

    class T(ast.NodeTransformer):
        def visit_Compare(self, node):  # noqa: ANN001, ANN202, N802
            self.generic_visit(node)
            return ast.Call(
                func=ast.Name(id="_cmpchain", ctx=ast.Load()),
                args=[node.left, ast.Tuple(elts=[ast.Constant(type(o).__name__) for o in node.ops], ctx=ast.Load()),
                      ast.Tuple(elts=[ast.Constant(isinstance(n, (ast.Name, ast.Constant))) for n in [node.left, *node.comparators]], ctx=ast.Load()),
                      *node.comparators],
                keywords=[],
            )

    tree = ast.fix_missing_locations(T().visit(ast.parse(src)))
    ns: dict = {"_cmpchain": _cmpchain, "__name__": modname + "_twin"}
    exec(compile(tree, modname + "_twin", "exec"), ns)  # noqa: S102
    return ns


def points(n: int, rng) -> list[tuple[float, ...]]:  # noqa: ANN001
    lat = list(itertools.product(LATTICE, repeat=n))
    pts = lat if len(lat) <= 25 else rng.sample(lat, 22)
    pts = list(pts) + [tuple(round(rng.uniform(-2.5, 2.5), 3) for _ in range(n)) for _ in range(4)]
    return pts


def py_value(f, pt):  # noqa: ANN001, ANN201
    try:
        v = f(*pt)
    except Exception:  # noqa: BLE001
        return None
    if isinstance(v, bool) or isinstance(v, complex):
        return None
    try:
        v = float(v)
    except (TypeError, ValueError):
        return None
    return v if math.isfinite(v) else None


def sym_value(e, mapping: dict):  # noqa: ANN001, ANN201
    import sympy

    try:
        r = e.xreplace({sympy.Symbol(k): sympy.Float(v) for k, v in mapping.items()})
        r = sympy.N(r)
    except Exception as ex:  # noqa: BLE001
        return ("error", repr(ex)[:200])
    if getattr(r, "free_symbols", None):
        return ("symbolic", str(r)[:200])
    try:
        if r.is_real is False:
            return ("complex", str(r))
        return ("value", float(r))
    except Exception as ex:  # noqa: BLE001
        return ("error", f"{r!s}: {ex!r}"[:200])


def renamings(nparams: int) -> list[tuple[str, list[str] | None]]:
    own = PARAMS[:nparams]
    out: list[tuple[str, list[str] | None]] = [("none", None), ("fresh", [f"m{i}" for i in range(nparams)])]
    if nparams >= 2:
        out.append(("swap", [own[1], own[0], *own[2:]]))
        out.append(("rotate", own[1:] + own[:1]))
    out.append(("shift", (PARAMS + ["w"])[1:nparams + 1]))
    return out


def run_case(case: dict) -> dict:
    import sympy
    from mxlpy.meta.source_tools import fn_to_sympy

    rng = core.rng_for(case["seed"])
    mod, meta, src = _write_modules(case, rng)
    mod.C1 = 1.25  # a re-run of the case in the same worker finds the module imported, with the value the second pass left
    twin = instrumented_twin(src, mod.__name__)
    viols: list[dict] = []
    counters: dict[str, int] = {"functions": 0, "translated": 0, "refused_none": 0, "refused_exception": 0, "points_compared": 0, "points_outside_domain": 0}
    sigs: list[str] = []
    # second pass: the module-level constant the functions read is re-bound (as when a script cell is re-run) and the
    # functions reading it are translated again in the same process; the translation must follow the function
    second = [dict(fm, second_pass=True) for fm in meta if "module_constant" in fm["features"]]
    redefine = rng.random() < 0.5
    rng2 = core.rng_for(case["seed"] + ":again")

    def work():  # noqa: ANN202
        for fm in [*meta, *second]:
            yield mod0, twin0, fm
        if redefine:
            # third pass: the module is defined again (a script or notebook cell run again after editing it): the same module
            # name and the same function names, other bodies and parameter lists; translated in the same process
            mod2, meta2, src2 = _write_modules(case, rng2, redefinition=True)
            mod2.C1 = 1.25
            twin2 = instrumented_twin(src2, mod2.__name__)
            counters["modules_defined_again_under_the_same_name"] = 1
            for fm in meta2:
                yield mod2, twin2, dict(fm, redefined=True)

    mod0, twin0 = mod, twin
    for mod, twin, fm in work():
        if fm.get("redefined"):
            counters["functions_translated_after_redefinition_under_the_same_qualified_name"] = counters.get("functions_translated_after_redefinition_under_the_same_qualified_name", 0) + 1
        if fm.get("second_pass") and not counters.get("module_constant_rebound"):
            mod.C1 = twin["C1"] = 2.75
            counters["module_constant_rebound"] = 1
        if fm.get("second_pass"):
            counters["functions_translated_again_after_rebinding"] = counters.get("functions_translated_again_after_rebinding", 0) + 1
        f = getattr(mod, fm["name"])
        ft = twin[fm["name"]]
        n = fm["nparams"]
        counters["functions"] += 1
        pts = points(n, rng)
        for rname, margs in (renamings(n)[:1] if fm.get("second_pass") else renamings(n)):
            try:
                e = fn_to_sympy(f, origin="c06", model_args=None if margs is None else [sympy.Symbol(m) for m in margs])
            except Exception:  # noqa: BLE001
                counters["refused_exception"] += 1
                continue
            if e is None:
                counters["refused_none"] += 1
                continue
            if isinstance(e, sympy.logic.boolalg.Boolean):
                continue
            counters["translated"] += 1
            names = PARAMS[:n] if margs is None else margs
            bad = None
            for pt in pts:
                pv = py_value(f, pt)
                if pv is None:
                    counters["points_outside_domain"] += 1
                    continue
                FRAGILE["n"] = 0
                tv = py_value(ft, pt)
                if FRAGILE["n"] or tv != pv:
                    # a comparison at this point is decided by floating-point rounding (or the twin disagrees): not a defined branch
                    counters["points_skipped_rounding_decides_a_comparison"] = counters.get("points_skipped_rounding_decides_a_comparison", 0) + 1
                    continue
                kind, sv = sym_value(e, dict(zip(names, pt)))
                counters["points_compared"] += 1
                if kind != "value" or not core.close(sv, pv, 1e-9, 1e-12):
                    bad = {"point": dict(zip(PARAMS[:n], pt)), "python": pv, "symbolic": sv, "symbolic_kind": kind}
                    break
            branchy = any(x in fm["source"] for x in ("if ", "h1(", "h2(", "h3(", "f0(", "f1(", "f2(", "f3(", "f4("))
            if branchy or rname in ("swap", "rotate", "shift"):
                sigs.append(core.sha([fm["source"], rname]))
            if bad:
                shape = [x for x in fm["features"] if x.startswith("shape:")][0][6:]
                cls = ("after re-binding a module constant;" if fm.get("second_pass") else "") + ("after the module was defined again;" if fm.get("redefined") else "") + f"shape={shape}" + (";eq_ne" if "eq_ne" in fm["features"] else "") + (";nested_call" if "nested_call" in fm["features"] else "") + (
                    ";own-name renaming" if rname in ("swap", "rotate", "shift") else "")
                viols.append(core.viol(f"translated expression differs from the function [{cls}]", mech(fm, rname, bad), function=fm["source"], renaming=rname, model_args=margs,
                                       expression=str(e)[:400], features=fm["features"], **bad))
        for ft in ([] if fm.get("second_pass") else fm["features"]):
            counters[f"feat:{ft}"] = counters.get(f"feat:{ft}", 0) + 1
    seen = set()
    out = []
    for v in viols:
        k = (v["detail"]["function"], v["detail"]["renaming"] in ("none", "fresh"))
        if k not in seen:
            seen.add(k)
            out.append(v)
    return core.result(sig=case["seed"], nontrivial=True, sigs=sigs, violations=out[:6], counters=counters,
                       sample={"module_source": src[:1800]} if case.get("idx", 0) < 1 else None)


def mech(fm: dict, rname: str, bad: dict) -> str | None:
    return None


def finalize(results: list[dict], tier: str, counters) -> dict:  # noqa: ANN001
    inc = []
    if not counters.get("translated"):
        inc.append("nothing was translated (everything refused)")
    if not counters.get("points_compared"):
        inc.append("no point compared")
    tot = counters.get("translated", 0) + counters.get("refused_none", 0) + counters.get("refused_exception", 0)
    return {"inconclusive": inc, "evaluations": int(counters.get("points_compared", 0)),
            "translated_fraction": round(counters.get("translated", 0) / tot, 3) if tot else 0.0,
            "programs": int(counters.get("functions", 0))}
