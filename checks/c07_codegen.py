"""C07 — generated Python/TypeScript/Rust/Julia right-hand sides equal the model.

Differential execution monitor: the four generators run on the same model
instance in random order; the emitted text is really executed (CPython exec,
node 20 after type stripping, rustc, a Julia-subset evaluator) at random states
and compared with model(t, x) (and with the reference evaluator).
"""

from __future__ import annotations

import copy
import os

from mon import core, lang
from mon import refmodel as rm
from mon.gen_transmodel import gen
from mon.fnlib import basic as fl  # noqa: F811
from mon.fnlib import trans as tr  # noqa: F811

LEVEL = "exploration"
RULE = (
    "surrogate-free models over the translatable function library (mass action, Michaelis-Menten, Hill, reversible, "
    "conditionals, chained comparisons, nested calls, local assignments, time dependence) in random declaration order, "
    "1..5 variables incl. exactly one and incl. variables without reactions, integer / fractional / named / computed "
    "(parameter- and state-dependent) coefficients, initial-assignment parameters, free_parameters subsets; the four "
    "generators are called on the same model instance in random order, each output executed at 4 states; plus models "
    "with one untranslatable function (generation must raise). non-trivial = model has >=2 of the hostile features; "
    "distinct = model hash"
)
ASSUMPTIONS = [
    "TypeScript: node 20 runs the code after stripping ': number' / ': number[]' annotations - type well-formedness is not decided (no tsc)",
    "Julia is not installed: a Julia-subset evaluator written for this check decides 'inside the subset and evaluates to the right numbers', not acceptance by real Julia",
    "oracle: Model.__call__ on the same state (monitored by C01) and mon/refmodel",
]
N = {"quick": 96, "thorough": 2400}
MIN_NONTRIVIAL = {"quick": 25, "thorough": 500}
LANGS = ["py", "ts", "rs", "jl"]


def gen_cases(tier: str, seed: int) -> list[dict]:
    n = max(4, int(N[tier] * float(os.environ.get("VERIF_SCALE", "1"))))
    return [{"seed": f"{seed}:C07:{i}", "untranslatable": i % 6 == 5} for i in range(n)]


def generators():  # noqa: ANN201
    from mxlpy.meta import generate_model_code_jl, generate_model_code_py, generate_model_code_rs, generate_model_code_ts

    return {"py": generate_model_code_py, "ts": generate_model_code_ts, "rs": generate_model_code_rs, "jl": generate_model_code_jl}


def run_case(case: dict) -> dict:
    from mon.fnlib import trans_b as tb

    try:
        return _run_case(case)
    finally:
        tb.KSAT, tb.Settings.gain = 1.75, 2.0


def _run_case(case: dict) -> dict:
    from mon.fnlib import basic as fl
    from mon.fnlib import trans_b as tb

    rng = core.rng_for(case["seed"])
    g = gen(rng, untranslatable=case["untranslatable"], magnitudes=0.3)
    spec, feats = g["spec"], g["features"]
    module_state = not case["untranslatable"] and rng.random() < 0.3
    if module_state:
        # rate laws that read a module-level constant / a class attribute of their module
        vs = [c["name"] for c in spec["components"] if c["kind"] == "variable"]
        ks = [c["name"] for c in spec["components"] if c["kind"] == "parameter" and "ia" not in c]
        a = rng.choice(vs)
        spec["components"].append({"kind": "reaction", "name": "vms", "fn": fl.ref(tb.t_modconst), "args": [a, rng.choice(ks)], "stoich": {a: -1.0}})
        spec["components"].append({"kind": "derived", "name": "dma", "fn": fl.ref(tb.t_modattr), "args": [rng.choice(vs), rng.choice(ks)]})
        spec["components"].append({"kind": "derived", "name": "dcn", "fn": fl.ref(tb.t_constnames), "args": [rng.choice(vs), rng.choice(ks)]})  # attributes called tau, e, pi
        feats = sorted({*feats, "module_state"})
    model = rm.build(spec)
    if module_state:
        # code was generated once in this process; then the values are re-bound; what is generated afterwards must follow the model
        try:
            generators()[rng.choice(LANGS)](copy.deepcopy(model), free_parameters=None)
        except Exception:  # noqa: BLE001, S110
            pass
        tb.KSAT, tb.Settings.gain = round(rng.uniform(0.5, 3.0), 3), round(rng.uniform(0.5, 3.0), 3)
    ref = rm.Ref(spec) if not case["untranslatable"] else None
    gens = generators()
    viols: list[dict] = []
    counters: dict[str, int] = {}
    work = lang.scratch()
    ctx = {"spec": spec, "features": feats}
    order = LANGS[:]
    rng.shuffle(order)
    # parameters feeding an initial assignment are not made free: what the assignment-defined parameter should
    # then be inside a stand-alone function is not defined by the statement
    ia_args = {a for c in spec["components"] if "ia" in c for a in c["ia"]["args"]}
    base_params = [c["name"] for c in spec["components"] if c["kind"] == "parameter" and "ia" not in c and c["name"] not in ia_args]
    free = sorted(rng.sample(base_params, rng.randint(1, min(2, len(base_params))))) if rng.random() < 0.5 and base_params else None
    plan = [(lg, None) for lg in order]
    if free:
        plan += [(lg, free) for lg in rng.sample(order, 2)]
        rng.shuffle(plan)
    if case["untranslatable"]:
        for lg, fp in plan[:4]:
            try:
                code = gens[lg](copy.deepcopy(model), free_parameters=fp)
                viols.append(core.viol(f"generation did not raise for a function that cannot be translated [{lg}]", None, language=lg, code=code[:600], **ctx))
            except Exception:  # noqa: BLE001
                counters["untranslatable_raised"] = counters.get("untranslatable_raised", 0) + 1
        return core.result(sig=core.sha(spec), nontrivial=True, violations=viols[:3], counters=counters)

    pv_before = dict(model.get_parameter_values())
    n = len(ref.variables)
    sc = g.get("state_scale", 1.0)
    states = [[round(rng.uniform(0.2, 3.0), 3) * sc for _ in range(n)] for _ in range(2)]
    states += [[rng.choice([0.5, 1.0, 1.5, 2.0]) * (sc if sc != 1.0 and rng.random() < 0.5 else 1.0) for _ in range(n)] for _ in range(2)]  # lattice states
    times = [0.0, round(rng.uniform(0.1, 3.0), 2), 1.0, 2.5]
    rs_jobs: list[tuple[str, list | None, str, list, list, list]] = []
    # a table of the caller's own (empty) handed to every generation as `custom_fns`, after it was used for a variant of the
    # model in which the same reaction names carry other rate laws: generated code follows the model it is generated from
    custom: dict | None = None
    if rng.random() < 0.5:
        custom = {}
        spec_v = copy.deepcopy(spec)
        for c in spec_v["components"]:
            if c["kind"] == "reaction":
                cur = fl.resolve(c["fn"]) if isinstance(c["fn"], str) else None
                alts = [f for f in tr.RATES.get(len(c["args"]), []) if f is not cur and f is not tr.t_eqgate]
                if cur in tr.RATES.get(len(c["args"]), []) and alts:
                    c["fn"] = fl.ref(rng.choice(alts))
        try:
            gens[rng.choice(LANGS)](rm.build(spec_v), custom_fns=custom)
        except Exception:  # noqa: BLE001, S110
            pass
        counters["caller_owned_custom_fns_table_used_for_a_variant_first"] = 1
    for lg, fp in plan:
        tag = f"{lg}{'+free' if fp else ''}"
        try:
            code = gens[lg](model, free_parameters=fp, **({"custom_fns": custom} if custom is not None else {}))
            if custom:
                viols.append(core.viol(f"generation wrote into the table handed over as custom_fns [{lg}]", None, language=tag, entries=sorted(custom)[:10], **ctx))
                custom.clear()
        except Exception as e:  # noqa: BLE001
            viols.append(core.viol(f"generation raised for a translatable model [{lg}]", mech_gen(lg, e), language=tag, error=f"{type(e).__name__}: {e}"[:300], **ctx))
            continue
        counters[f"generated:{lg}"] = counters.get(f"generated:{lg}", 0) + 1
        # a generator must not change the model it reads
        if dict(model.get_parameter_values()) != pv_before:
            viols.append(core.viol("generator changed the model's parameter table", None, language=tag, before=pv_before, after=dict(model.get_parameter_values()), **ctx))
            model.update_parameters(pv_before) if set(pv_before) == set(model.get_parameter_values()) else None
            model = rm.build(spec)
        # expected values: model with the free parameters set to other values
        extra = [round(rng.uniform(0.3, 2.0), 3) for _ in (fp or [])]
        m2 = rm.build(spec)
        if fp:
            m2.update_parameters(dict(zip(fp, extra)))
        expected = [list(m2(t, s)) for t, s in zip(times, states)]
        scales = [core.term_scales(m2, t, s) for t, s in zip(times, states)]
        calls = [(t, s, extra) for t, s in zip(times, states)]
        if lg == "rs":
            rs_jobs.append((tag, fp, code, calls, expected, scales))
            continue
        try:
            if lg == "py":
                got = lang.run_py(code, calls)
            elif lg == "ts":
                got = lang.run_ts(code, calls, work)
            else:
                got = lang.run_jl(code, calls)
        except lang.NotWellFormed as e:
            mech = None
            if lg == "jl" and mech_wf(lg, str(e), code):
                # attribution by repair twin: the same emission with the one known template defect repaired
                # (assignment targets re-attached from the Python emission, which has the same line order;
                # '= *variables' -> '= variables') must be inside the Julia subset and return the model's values
                try:
                    twin = repair_julia(code, gens["py"](rm.build(spec), free_parameters=fp))
                    if twin is not None and compare(lang.run_jl(twin, calls), expected, n, scales) is None:
                        mech = "C07-julia-templates"
                        counters["julia_repair_twin_agrees"] = counters.get("julia_repair_twin_agrees", 0) + 1
                        counters["executed:jl(repaired twin)"] = counters.get("executed:jl(repaired twin)", 0) + len(calls)
                except Exception:  # noqa: BLE001
                    mech = None
            viols.append(core.viol(f"emitted code is not well-formed / callable [{lg}]", mech, language=tag, error=str(e)[:400], code=code[:900], **ctx))
            continue
        v = compare(got, expected, n, scales)
        counters[f"executed:{lg}"] = counters.get(f"executed:{lg}", 0) + len(calls)
        if v:
            viols.append(core.viol(f"generated function returns different values from the model [{lg}]", None, language=tag, **v, code=code[:900], **ctx))
    if rs_jobs:
        res = lang.run_rs([j[2] for j in rs_jobs], [j[3] for j in rs_jobs], work)
        for (tag, _fp, code, calls, expected, scales), r in zip(rs_jobs, res):
            if isinstance(r, str):
                viols.append(core.viol("emitted code is not well-formed / callable [rs]", mech_wf("rs", r, code), language=tag, error=r[:500], code=code[:900], **ctx))
                continue
            counters["executed:rs"] = counters.get("executed:rs", 0) + len(calls)
            v = compare(r, expected, n, scales)
            if v:
                viols.append(core.viol("generated function returns different values from the model [rs]", None, language=tag, **v, code=code[:900], **ctx))
    hostile = {"untouched_variable", "single_variable", "dependent_declared_first", "ia_parameter", "integer_coefficient", "state_dependent_coefficient", "conditional", "computed_coefficient"}
    for f in feats:
        counters[f"feat:{f}"] = 1
    seen = set()
    out = []
    for v in viols:
        if v["what"] not in seen:
            seen.add(v["what"])
            out.append(v)
    return core.result(sig=core.sha(spec), nontrivial=len(hostile & set(feats)) >= 2, violations=out[:6], counters=counters,
                       sample={"features": feats, "free_parameters": free, "order": [p[0] for p in plan]} if case.get("idx", 0) < 3 else None)


def compare(got: list[list[float]], expected: list[list[float]], n: int, scales: list[list[float]] | None = None) -> dict | None:
    """Each derivative within 1e-9 of the magnitude of the terms it is made of (core.term_scales): relative scrutiny at
    every order of magnitude, robust against cancellation."""
    import math

    for i, (g, e) in enumerate(zip(got, expected)):
        if len(g) != n:
            return {"problem": "wrong number of derivatives", "got": g, "expected": e}
        for j, (a, b) in enumerate(zip(g, e)):
            if scales is None:
                ok = core.close(a, b, 1e-9, 1e-12)
            else:
                ok = math.isfinite(float(a)) and abs(float(a) - float(b)) <= 1e-9 * max(scales[i][j], abs(float(b))) + 1e-300
            if not ok:
                return {"problem": "value differs", "got": g, "expected": e, "term_magnitudes": None if scales is None else scales[i]}
    return None


def repair_julia(jl: str, py: str) -> str | None:
    import re

    names = re.findall(r"^\s+([A-Za-z_][A-Za-z_0-9]*): float = ", py, flags=re.M)
    out = []
    it = iter(names)
    for ln in lang.logical_lines(jl):
        if re.match(r"^\s+k = ", ln):
            try:
                out.append(re.sub(r"^(\s+)k = ", lambda m: f"{m.group(1)}{next(it)} = ", ln))
            except StopIteration:
                return None
        elif ln.rstrip().endswith("= *variables"):
            out.append(ln.replace("= *variables", "= variables"))
        else:
            out.append(ln)
    if next(it, None) is not None:
        return None
    return "\n".join(out)


def mech_gen(lg: str, e: Exception) -> str | None:
    return None


def mech_wf(lg: str, err: str, code: str) -> str | None:
    if lg == "jl":
        import re

        lines = [ln.strip() for ln in lang.logical_lines(code)]
        assigns = [ln for ln in lines if "=" in ln and not ln.startswith("function")]
        only_k = all(re.match(r"^(k = |[A-Za-z_0-9, ]+ = \*variables$)", ln) for ln in assigns)
        if only_k and assigns:
            return "C07-julia-templates"
    return None


def finalize(results: list[dict], tier: str, counters) -> dict:  # noqa: ANN001
    inc = []
    for lg in ("py", "ts", "rs"):
        if not counters.get(f"executed:{lg}"):
            inc.append(f"no generated {lg} code was executed")
    if not counters.get("untranslatable_raised"):
        inc.append("no untranslatable model exercised")
    return {"inconclusive": inc, "toolchains": lang.toolchains(),
            "evaluations": int(sum(v for k, v in counters.items() if k.startswith("executed:")))}
