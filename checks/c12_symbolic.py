"""C12 — symbolic equations and Jacobian agree with the numeric model.

Differential monitor: to_symbolic_model(M).eqs / .jacobian() evaluated by exact
substitution vs the numeric model (monitored by C01) at random states *and*
random parameter settings; trajectories with use_jacobian=True vs False for the
Jacobian-using integrator methods, with a counter on the Jacobian callable.
"""

from __future__ import annotations

import copy
import logging
import os
from functools import partial

import numpy as np

from mon import core
from mon import refmodel as rm
from mon.fnlib import basic as fl
from mon.fnlib import trans as tr
from mon.gen_transmodel import gen, module_state_rebound
from mon.linmodel import gen_linnet

LEVEL = "exploration"
RULE = (
    "part A: translatable models (C07 generator: random declaration order incl. dependent derived declared first, "
    "variables without reactions, initial-assignment parameters, named / computed / state-dependent coefficients, time) "
    "and models built from the shipped rate-law library mxlpy.fns, evaluated at 3 states x 2 parameter settings: eqs vs "
    "model(t, x), jacobian vs central differences; part B: linear and Michaelis-Menten chains simulated with "
    "use_jacobian in {False, True} x {Radau, BDF, LSODA}, Jacobian calls counted; part C: untranslatable functions must "
    "make the conversion raise. non-trivial = hostile feature present (A) / Jacobian really called (B); distinct = case hash"
)
ASSUMPTIONS = [
    "numeric model is the oracle (C01); central differences with step 1e-6*scale, tolerance 1e-5",
    "a simulator that falls back (no Jacobian, warning logged) is accepted by the statement and counted separately",
]
N = {"quick": 150, "thorough": 30000}
MIN_NONTRIVIAL = {"quick": 40, "thorough": 800}
CASE_TIMEOUT = 600


def gen_cases(tier: str, seed: int) -> list[dict]:
    n = max(6, int(N[tier] * float(os.environ.get("VERIF_SCALE", "1"))))
    kinds = ["A", "A", "A", "lib", "B", "C"]
    return [{"seed": f"{seed}:C12:{i}", "part": kinds[i % len(kinds)]} for i in range(n)]


def lib_model(rng) -> dict:  # noqa: ANN001
    """Model from the shipped library, derived quantities declared in random order."""
    L = lambda f: f"mxlpy.fns:{f}"  # noqa: E731
    comps = [
        {"kind": "parameter", "name": "k1", "value": round(rng.uniform(0.3, 2), 3)}, {"kind": "parameter", "name": "k2", "value": round(rng.uniform(0.3, 2), 3)},
        {"kind": "parameter", "name": "vmax", "value": round(rng.uniform(0.5, 2), 3)}, {"kind": "parameter", "name": "km", "value": round(rng.uniform(0.3, 2), 3)},
        {"kind": "parameter", "name": "tot", "value": 5.0},
        {"kind": "variable", "name": "a", "value": round(rng.uniform(0.3, 2), 3)}, {"kind": "variable", "name": "b", "value": round(rng.uniform(0.3, 2), 3)},
        {"kind": "variable", "name": "c", "value": round(rng.uniform(0.3, 2), 3)},
        {"kind": "derived", "name": "free", "fn": L("moiety_1s"), "args": ["a", "tot"]},
        {"kind": "derived", "name": "keff", "fn": L("mul"), "args": ["k1", "free"]},
        {"kind": "derived", "name": "kd", "fn": L("div"), "args": ["keff", "k2"]},
        {"kind": "reaction", "name": "r1", "fn": L("mass_action_1s"), "args": ["a", "keff"], "stoich": {"a": -1, "b": 1}},
        {"kind": "reaction", "name": "r2", "fn": L("michaelis_menten_1s"), "args": ["b", "vmax", "km"], "stoich": {"b": -1, "c": 1}},
        {"kind": "reaction", "name": "r3", "fn": L("mass_action_2s"), "args": ["b", "c", "kd"], "stoich": {"b": -1, "c": -1}},
        {"kind": "reaction", "name": "r4", "fn": L("mass_action_1s_1p"), "args": ["c", "a", "k1", "k2"], "stoich": {"c": -1, "a": 1}},
        {"kind": "reaction", "name": "r5", "fn": L("constant"), "args": ["k2"], "stoich": {"a": 1}},
    ]
    spec = rm.shuffled({"components": comps}, rng)
    order = [c["name"] for c in spec["components"]]
    feats = ["shipped_library"]
    if order.index("keff") < order.index("free") or order.index("kd") < order.index("keff"):
        feats.append("dependent_declared_first")
    return {"spec": spec, "features": feats}


def eval_sym(exprs, sm, values: dict, t: float):  # noqa: ANN001, ANN201
    import sympy

    sub = {sympy.Symbol(k): sympy.Float(v) for k, v in values.items()}
    sub[sympy.Symbol("time")] = sympy.Float(t)
    out = []
    for e in exprs:
        r = sympy.N(sympy.sympify(e).xreplace(sub))
        if getattr(r, "free_symbols", None):
            return None, f"free symbols left: {sorted(str(s) for s in r.free_symbols)}"
        out.append(float(r))
    return out, None


def part_a(case: dict, g: dict, rng) -> tuple[list[dict], dict, bool]:  # noqa: ANN001
    from mxlpy import to_symbolic_model

    spec, feats = g["spec"], g["features"]
    model = rm.build(spec)
    viols: list[dict] = []
    counters: dict[str, int] = {}
    ctx = {"spec": spec, "features": feats}
    label = "+".join(f for f in feats if f in ("dependent_declared_first", "untouched_variable", "ia_parameter", "named_coefficient", "computed_coefficient",
                                                "state_dependent_coefficient", "time", "shipped_library")) or "plain"
    try:
        sm = to_symbolic_model(model)
    except Exception as e:  # noqa: BLE001
        viols.append(core.viol(f"conversion raised for a translatable model [{label}]", None, error=f"{type(e).__name__}: {e}"[:300], **ctx))
        return viols, counters, True
    counters["converted"] = 1
    names = model.get_variable_names()
    if list(sm.variables) != names or len(sm.eqs) != len(names):
        viols.append(core.viol("symbolic model's variables / equations are not in variable order", None, got=list(sm.variables), expected=names, **ctx))
        return viols, counters, True
    try:
        jac = sm.jacobian()
    except Exception as e:  # noqa: BLE001
        viols.append(core.viol("jacobian() raised", None, error=repr(e)[:300], **ctx))
        jac = None
    base = [c["name"] for c in spec["components"] if c["kind"] == "parameter" and "ia" not in c]
    for pi in range(2):
        m2 = rm.build(spec)
        if pi == 1:
            m2.update_parameters({p: round(rng.uniform(0.3, 2.0), 3) for p in base if p not in ("nh", "tot")})
        pvals = {k: float(v) for k, v in m2.get_args().items() if k in m2.get_parameter_names()}
        for i_st in range(6):
            st = {v: round(rng.uniform(0.3, 2.5), 3) for v in names}
            lattice = i_st >= 3
            if lattice:
                # lattice states: equality tests between quantities hold here; equations only (no derivative exists there)
                st = {v: rng.choice([0.5, 1.0, 1.5, 2.0]) for v in names}
            if i_st == 5 and "equality_gate" in feats:
                st = {v: 1.0 for v in names}  # every `x == y` and `x != 1.0` between variables is decided by equality here
            t = round(rng.uniform(0.0, 3.0), 2)
            num = list(m2(t, [st[v] for v in names]))
            got, err = eval_sym(sm.eqs, sm, pvals | st, t)
            counters["eq_points"] = counters.get("eq_points", 0) + 1
            setting = "current parameters" if pi == 0 else "other parameter setting"
            if got is None:
                viols.append(core.viol(f"symbolic equations cannot be evaluated [{label}]", None, problem=err, **ctx))
                return viols, counters, True
            bad = [n for n, a, b in zip(names, got, num) if not core.close(a, b, 1e-9, 1e-12)]
            if bad:
                viols.append(core.viol(f"symbolic equations differ from the numeric derivatives ({setting}) [{label}]", None, variables=bad, symbolic=got, numeric=num,
                                       state=st, time=t, parameters=pvals, eqs=[str(e)[:200] for e in sm.eqs], **ctx))
                return viols, counters, True
            if jac is not None and not lattice and not ("equality_gate" in feats and (len({round(float(x), 9) for x in st.values()} | {1.0}) <= len(st) or _on_an_equality_gate(m2, spec, st, t))):
                jv, err = eval_sym(list(jac), sm, pvals | st, t)
                if jv is None:
                    viols.append(core.viol("symbolic Jacobian cannot be evaluated", None, problem=err, **ctx))
                    return viols, counters, True
                n = len(names)
                J = np.array(jv).reshape(n, n)
                x0 = np.array([st[v] for v in names])
                Jn = np.zeros((n, n))
                for j in range(n):
                    h = 1e-6 * max(1.0, abs(x0[j]))
                    xp, xm = x0.copy(), x0.copy()
                    xp[j] += h
                    xm[j] -= h
                    Jn[:, j] = (np.array(m2(t, list(xp))) - np.array(m2(t, list(xm)))) / (2 * h)
                counters["jacobian_points"] = counters.get("jacobian_points", 0) + 1
                if not np.allclose(J, Jn, rtol=1e-5, atol=1e-6):
                    # conditionals are not differentiable at their boundaries: skip points near a kink
                    if "conditional" in feats:
                        # one-sided slopes differ where a branch switches (also exactly on the switching point, where the
                        # central difference straddles it): the right-hand side has no derivative there
                        f0 = np.array(m2(t, list(x0)))
                        one_sided_differ = False
                        for j in range(n):
                            h = 1e-6 * max(1.0, abs(x0[j]))
                            xp, xm = x0.copy(), x0.copy()
                            xp[j] += h
                            xm[j] -= h
                            fwd = (np.array(m2(t, list(xp))) - f0) / h
                            bwd = (f0 - np.array(m2(t, list(xm)))) / h
                            if not np.allclose(fwd, bwd, rtol=1e-3, atol=1e-4):
                                one_sided_differ = True
                        if one_sided_differ:
                            counters["jacobian_points_skipped_near_kink"] = counters.get("jacobian_points_skipped_near_kink", 0) + 1
                            continue
                    if "conditional" in feats and np.max(np.abs(J - Jn)) > 1e-3:
                        xk = x0 * (1 + 1e-3)
                        if not np.allclose(np.array(m2(t, list(xk))), np.array(num) + Jn @ (xk - x0), rtol=1e-3, atol=1e-4):
                            counters["jacobian_points_skipped_near_kink"] = counters.get("jacobian_points_skipped_near_kink", 0) + 1
                            continue
                    viols.append(core.viol(f"symbolic Jacobian differs from the derivative of the numeric right-hand side [{label}]", None, symbolic=J.tolist(), numeric=Jn.tolist(), state=st, **ctx))
                    return viols, counters, True
    hostile = {"dependent_declared_first", "untouched_variable", "ia_parameter", "named_coefficient", "computed_coefficient", "state_dependent_coefficient", "time", "shipped_library"}
    return viols, counters, bool(hostile & set(feats))


class _Count:
    def __init__(self, fn) -> None:  # noqa: ANN001
        self.fn = fn
        self.n = 0

    def __call__(self, *a, **k):  # noqa: ANN002, ANN003, ANN204
        self.n += 1
        return self.fn(*a, **k)


def part_b(case: dict, rng) -> tuple[list[dict], dict, bool]:  # noqa: ANN001
    from mxlpy import Scipy, Simulator

    viols: list[dict] = []
    counters: dict[str, int] = {}
    kind = rng.choice(["linear", "mm"])
    net = gen_linnet(rng, n_max=3)
    spec = net.spec()
    if kind == "mm":
        spec["components"].append({"kind": "parameter", "name": "vm", "value": round(rng.uniform(0.5, 2), 3)})
        spec["components"].append({"kind": "parameter", "name": "kmm", "value": round(rng.uniform(0.3, 2), 3)})
        spec["components"].append({"kind": "reaction", "name": "vmm", "fn": fl.ref(tr.t_mm), "args": ["x0", "vm", "kmm"], "stoich": {"x0": -1, net.variables[-1]: 1}})
    t_end = rng.choice([1.0, 2.5, 5.0])
    second = rng.random() < 0.6  # parameter change between two segments: the Jacobian must follow
    how_second = rng.choice(["simulator", "model", "protocol"])
    # the model's own start values, handed over as `y0` with the names in another order than the model declares them
    y0_other_order = dict(reversed(list(net.y0.items()))) if len(net.variables) > 1 and rng.random() < 0.5 else None
    counters["y0_given_in_another_key_order"] = int(y0_other_order is not None)
    results = {}
    jac_used = False
    ctx = {"kind": kind, "net": net.to_json(), "t_end": t_end, "two_segments": second, "second_through": how_second if second else None, "y0_in_another_key_order": y0_other_order is not None}
    for method in ("Radau", "BDF", "LSODA"):
        for uj in (False, True):
            model = rm.build(spec)
            with _capture() as logs:
                sim = Simulator(model, integrator=partial(Scipy, method=method), use_jacobian=uj, **({"y0": dict(y0_other_order)} if y0_other_order else {}))
            cnt = None
            if uj:
                jf = getattr(sim.integrator, "jacobian", None)
                if jf is None:
                    counters["simulator_fell_back_without_jacobian"] = counters.get("simulator_fell_back_without_jacobian", 0) + 1
                    if not logs:
                        viols.append(core.viol("simulator dropped the Jacobian without a warning", None, method=method, **ctx))
                else:
                    cnt = _Count(jf)
                    sim.integrator.jacobian = cnt
            try:
                sim.simulate(t_end, steps=8)
                if second:
                    # (a rate constant of a first-order step: the Jacobian depends on it; the influx constant does not enter it)
                    pk = next((r_["k"] for r_ in net.rxns if r_.get("sub")), list(net.params)[0])
                    if how_second == "simulator":
                        sim.update_parameter(pk, net.params[pk] * 2.0)
                        sim.simulate(t_end * 2, steps=8)
                    elif how_second == "model":
                        sim.model.update_parameter(pk, net.params[pk] * 2.0)  # the model the simulator works on, edited directly
                        sim.simulate(t_end * 2, steps=8)
                    else:
                        from mxlpy import make_protocol

                        sim.simulate_protocol(make_protocol([(t_end / 2, {pk: net.params[pk] * 2.0}), (t_end / 2, {pk: net.params[pk] * 3.0})]), time_points_per_step=4)
                res = sim.get_result().value
                jf_now = getattr(sim.integrator, "jacobian", None) if uj else None
                if jf_now is not None and not isinstance(res, Exception):
                    # the Jacobian the integrator holds now is the derivative of the right-hand side it integrates now
                    names_ = sim.model.get_variable_names()
                    y_ = res.get_variables(include_derived_variables=False, include_readouts=False, include_surrogate_variables=False).iloc[-1][names_].to_numpy(dtype=float)
                    t_ = float(res.get_variables(include_derived_variables=False, include_readouts=False, include_surrogate_variables=False).index[-1])
                    J = np.asarray(jf_now(t_, y_), dtype=float)
                    fd = np.zeros_like(J)
                    for j_ in range(len(y_)):
                        h_ = 1e-6 * max(1.0, abs(y_[j_]))
                        yp, ym = y_.copy(), y_.copy()
                        yp[j_] += h_
                        ym[j_] -= h_
                        fd[:, j_] = (np.asarray(sim.model(t_, yp), dtype=float) - np.asarray(sim.model(t_, ym), dtype=float)) / (2 * h_)
                    counters["integrator_jacobians_compared_with_differences_of_the_right_hand_side"] = counters.get("integrator_jacobians_compared_with_differences_of_the_right_hand_side", 0) + 1
                    if J.shape != fd.shape or not np.allclose(J, fd, rtol=1e-5, atol=1e-6):
                        viols.append(core.viol(f"the Jacobian the integrator holds is not the derivative of the right-hand side it integrates [{method}]", None, method=method, jacobian=J.tolist(), finite_differences=fd.tolist(),
                                               parameter_changed_through=how_second if second else None, **ctx))
            except Exception as e:  # noqa: BLE001
                viols.append(core.viol(f"simulation with use_jacobian={uj} raised [{method}]", None, error=f"{type(e).__name__}: {e}"[:300], method=method, **ctx))
                continue
            if isinstance(res, Exception):
                viols.append(core.viol(f"simulation with use_jacobian={uj} failed [{method}]", None, error=repr(res)[:200], method=method, **ctx))
                continue
            results[(method, uj)] = res.get_variables(include_derived_variables=False, include_readouts=False, include_surrogate_variables=False)
            if cnt is not None:
                counters[f"jacobian_calls:{method}"] = counters.get(f"jacobian_calls:{method}", 0) + cnt.n
                jac_used = jac_used or cnt.n > 0
        a, b = results.get((method, False)), results.get((method, True))
        if a is not None and b is not None:
            counters["trajectory_pairs_compared"] = counters.get("trajectory_pairs_compared", 0) + 1
            if a.shape != b.shape or not np.allclose(a.to_numpy(), b.to_numpy(), rtol=2e-5, atol=1e-7):
                viols.append(core.viol(f"trajectories with and without Jacobian differ [{method}]", None, method=method,
                                       max_abs_diff=float(np.max(np.abs(a.to_numpy() - b.to_numpy()))) if a.shape == b.shape else None, **ctx))
            if kind == "linear" and not second:
                exact = net.propagate(net.y0, net.params, t_end)
                last = b.iloc[-1].to_dict()
                if any(not core.close(last[k], exact[k], 1e-4, 1e-6) for k in exact):
                    viols.append(core.viol(f"trajectory with Jacobian differs from the closed-form solution [{method}]", None, got=last, expected=exact, **ctx))
    return viols, counters, jac_used


def _on_an_equality_gate(model, spec: dict, st: dict, t: float) -> bool:  # noqa: ANN001
    """Is an operand pair of an equality-gated rate law (t_eqgate: `s == e`, `s != 1.0`) equal, or within the step of the
    finite differences, at this state? (a derived quantity can equal a state value: 2 * 0.51 == 1.02) No derivative exists there."""
    args = model.get_args(st, t)
    for c in spec["components"]:
        if c["kind"] == "reaction" and str(c["fn"]).endswith(":t_eqgate"):
            a, e = float(args[c["args"][0]]), float(args[c["args"][1]])
            if abs(a - e) <= 1e-4 * max(1.0, abs(a)) or abs(a - 1.0) <= 1e-4:
                return True
    return False


class _capture:  # noqa: N801
    def __enter__(self):  # noqa: ANN204
        self.records: list = []
        self.prev = logging.root.manager.disable
        logging.disable(logging.NOTSET)
        self.h = logging.Handler()
        self.h.emit = lambda r: self.records.append(r.getMessage())  # type: ignore[method-assign]
        self.lg = logging.getLogger("mxlpy.simulator")
        self.lg.addHandler(self.h)
        return self.records

    def __exit__(self, *a):  # noqa: ANN002, ANN204
        self.lg.removeHandler(self.h)
        logging.disable(self.prev)
        return False


def run_case(case: dict) -> dict:
    from mxlpy import to_symbolic_model

    rng = core.rng_for(case["seed"])
    part = case["part"]
    counters: dict[str, int] = {f"part:{part}": 1}
    if part in ("A", "lib"):
        g = gen(rng, conditionals=rng.random() < 0.5, module_state=0.25, trace_coefficient=0.3) if part == "A" else lib_model(rng)
        if "module_state" in g["features"]:
            # one conversion was made in this process before the module-level values the rate laws read are re-bound
            with module_state_rebound(rng, lambda: to_symbolic_model(rm.build(g["spec"]))):
                viols, c, nt = part_a(case, g, rng)
        else:
            viols, c, nt = part_a(case, g, rng)
        sig = core.sha(g["spec"])
        for f in g["features"]:
            c[f"feat:{f}"] = 1
        sample = {"features": g["features"]} if case.get("idx", 0) < 4 else None
    elif part == "B":
        viols, c, nt = part_b(case, rng)
        sig = case["seed"]
        sample = None
    else:
        g = gen(rng, untranslatable=True)
        model = rm.build(g["spec"])
        viols, c, nt, sig, sample = [], {}, True, core.sha(g["spec"]), None
        try:
            sm = to_symbolic_model(model)
            viols.append(core.viol("conversion of a model with an untranslatable function returned equations", None, eqs=[str(e)[:200] for e in sm.eqs], spec=g["spec"]))
        except Exception:  # noqa: BLE001
            c["untranslatable_raised"] = 1
    counters.update(c)
    seen = set()
    out = []
    for v in viols:
        if v["what"] not in seen:
            seen.add(v["what"])
            out.append(v)
    return core.result(sig=sig, nontrivial=nt, violations=out[:4], counters=counters, sample=sample)


def finalize(results: list[dict], tier: str, counters) -> dict:  # noqa: ANN001
    inc = []
    for k in ("eq_points", "jacobian_points", "trajectory_pairs_compared", "untranslatable_raised"):
        if not counters.get(k):
            inc.append(f"monitor '{k}' never evaluated")
    if not any(k.startswith("jacobian_calls:") and v > 0 for k, v in counters.items()):
        inc.append("no integrator ever called the Jacobian (all simulations trivial)")
    return {"inconclusive": inc}
